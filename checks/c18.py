"""C18 — paths are non-empty sequences of valid Rust identifiers (specs/Paths.tla)."""
import json, os
import vlib

def cfg(wd, name, body):
    p = os.path.join(wd, name); open(p, "w").write(body); return p

def replay_cases(c, exe, cases_file, ncases):
    mf = os.path.join(c.wd, "mismatch.ndjson")
    p = vlib.run([exe, "replay", cases_file, mf])
    if p.returncode != 0: raise vlib.ToolError("paths replay crashed: " + p.stderr[-2000:])
    s = json.loads(p.stdout.strip().splitlines()[-1])
    if s["executed"] != 3 * ncases: raise vlib.ToolError("replayed %d of %d" % (s["executed"], 3 * ncases))
    c.add("evaluations", s["executed"] + s.get("swept", 0)); c.add("class_sweep_strings", s.get("swept", 0)); c.add("traces_validated_against_impl", ncases)
    bad = vlib.ndjson_read(mf)
    kf_bad = [b for b in bad if b["input"].get("k") == "ident" and [x[0] for x in b["input"]["s"][:4]] == ["r", "#", "r", "#"]]
    other = [b for b in bad if b not in kf_bad]
    if kf_bad:
        rp = c.replay_file("repeated_raw_prefix.ndjson", "\n".join(json.dumps(b) for b in kf_bad[:20]) + "\n")
        c.violation("repeated-raw-prefix", "%d strings with a repeated raw prefix (r#r#...) are accepted; first: %s" % (len(kf_bad), kf_bad[0]["mismatch"][0]), rp)
    if other:
        rp = c.replay_file("cases_mismatch.ndjson", "\n".join(json.dumps(b) for b in other[:50]) + "\n")
        c.violation("replay", "%d enumerated cases disagree with the real Path API; first: %s" % (len(other), other[0]["mismatch"][0][:300]), rp)

def validate(c, tr):
    evs = vlib.ndjson_read(tr)
    ok, info = vlib.tlc_trace("Trace_Paths", "Trace_Paths.cfg", c.wd, tr)
    c.add("trace_events", len(evs)); c.add("traces_validated_against_impl", len(evs)); c.add("evaluations", len(evs))
    c.sample({"trace_event": evs[0]})
    if not ok:
        bad = evs[info["at"] - 1]
        rp = c.replay_file("trace_event.ndjson", json.dumps(bad) + "\n")
        c.violation("trace", "recorded call #%d is not what the specification computes: %s" % (info["at"], json.dumps(bad)[:300]), rp)

def run(tier, replay=None):
    c = vlib.Check("C18", tier, "model_checking")
    wd = c.wd
    exe = os.path.join(vlib.cargo_build(["paths"]), "paths")
    if replay:
        items = vlib.ndjson_read(replay)
        if items and "input" in items[0]:
            cf = os.path.join(wd, "cases.ndjson"); vlib.ndjson_write(cf, [i["input"] for i in items]); replay_cases(c, exe, cf, len(items))
        else:
            validate(c, replay)
        return c.finish()
    thorough = tier == "thorough"
    maxlen = 7 if thorough else 6
    # machine 1: all strings over the 8 character classes up to maxlen; DFA = declarative regex; every state is a case
    r = vlib.tlc("MC_Paths", cfg(wd, "MC_Paths_str.cfg", 'CONSTANTS MaxLen = %d MaxSegs = 0 MaxTab = 0 Mode = "str"\nSPECIFICATION Spec\nINVARIANT DFAisDecl EmitStr\nCHECK_DEADLOCK FALSE\n' % maxlen), wd, workers=8, heap="8g")
    if not r.ok: raise vlib.ToolError("Paths design check failed: " + "\n".join(r.errors[:3]))
    c.add("states", r.distinct); c.add("transitions", r.generated)
    out1 = os.path.join(wd, "MC_Paths_str.cfg.out")
    n1 = sum(1 for l in open(out1) if l.startswith('<<"CASE"'))
    if n1 != r.distinct: raise vlib.ToolError("case emission incomplete: %d of %d" % (n1, r.distinct))
    replay_cases(c, exe, out1, n1)
    # machine 2: segment lists x replacement tables -> every Path operation
    r2 = vlib.tlc("MC_Paths", cfg(wd, "MC_Paths_ops.cfg", 'CONSTANTS MaxLen = 0 MaxSegs = 3 MaxTab = %d Mode = "ops"\nSPECIFICATION Spec\nINVARIANT SplitJoin EmitOps\nCHECK_DEADLOCK FALSE\n' % (2 if thorough else 1)), wd, workers=8, heap="8g")
    if not r2.ok: raise vlib.ToolError("Paths ops design check failed: " + "\n".join(r2.errors[:3]))
    c.add("states", r2.distinct); c.add("transitions", r2.generated)
    out2 = os.path.join(wd, "MC_Paths_ops.cfg.out")
    n2 = sum(1 for l in open(out2) if l.startswith('<<"CASE"'))
    if n2 != r2.distinct: raise vlib.ToolError("ops case emission incomplete: %d of %d" % (n2, r2.distinct))
    replay_cases(c, exe, out2, n2)
    # impl -> spec: random strings incl. arbitrary unicode
    tr = os.path.join(wd, "rand.ndjson")
    vlib.run([exe, "record", str(vlib.seed()), str(4000 if thorough else 1000), tr], check=True)
    validate(c, tr)
    c.cov["exhaustive"] = True
    c.cov["rule"] = "every string of length <= %d over 8 character classes (letter, r, _, digit, #, :, other ASCII, non-ASCII), each concretised with 3 different representative characters, the strings of length <= 3 additionally with EVERY member of the class at each position (all ASCII characters, a spread of non-ASCII letters, numerics, marks and format characters); every list of <=3 segments over 10 representative segments x every replacement table of <=%d entries; plus random unicode strings validated by TLC" % (maxlen, 2 if thorough else 1)
    c.assumptions += ["acceptance depends on a character only through its class (letter / r / _ / digit / # / : / other ASCII / non-ASCII)", "the harness's classify() is trusted"]
    return c.finish()
