"""C03 — derived TypeInfo describes exactly the bytes derived Encode writes (specs/ScaleValue.tla, Derive.tla)."""
import vlib
from checks import derivecommon as DC

def run(tier, replay=None):
    c = vlib.Check("C03", tier, "model_checking")
    if replay:
        rej = DC.validate(c, "C03", replay)
        if rej: DC.report(c, "C03", rej)
        return c.finish()
    decls = DC.declarations(c, tier, with_encoded_as=True)
    # field renaming is metadata-only and judged by C09; C03 compares the declared identifiers
    for d in decls:
        for g in [d["fields"]] + [v["fields"] for v in d["variants"]]:
            for f in g: f["rename"] = []
    tr, failed = DC.observe(c, decls, True, 6 if tier == "thorough" else 4)
    if failed:
        src, g, diags = failed[0]
        # a declaration of the supported grammar whose derived TypeInfo (or its interplay with the derived Encode) does
        # not compile: no decoder can be driven by it (every program of this grammar compiles where the property holds)
        rp = c.replay_file("derive_program_does_not_compile.rs", open(src).read())
        c.violation("derive-emits-invalid", "a program deriving TypeInfo and Encode for declarations of the supported grammar does not compile: %s" % ((diags[0]["message"] or "")[:300] if diags else "?"), rp)
    DC.validate_all(c, "C03", tr)
    c.cov["exhaustive"] = False
    c.cov["rule"] = "declarations as for C09 (TLC-enumerated feature plans: every set of <=%d features, incl. encoded_as + seeded random declarations), each deriving TypeInfo and Encode; per type several random values with a value tree computed by an oracle generated from the DECLARATION; TLC decodes the real bytes using only the real PortableRegistry (ScaleValue.Dec) and requires exact consumption, same variant (first byte = metadata index), field names, order and leaves; reported indices follow codec(index) > discriminant > position among non-skipped" % (4 if tier == "thorough" else 2)
    c.assumptions += ["generic #[codec(compact)] members are outside the grammar (README known issue)", "values of skipped variants are not generated (they cannot be encoded)"]
    return c.finish()
