"""C03 — derived TypeInfo describes exactly the bytes derived Encode writes (specs/ScaleValue.tla, Derive.tla)."""
import vlib
from checks import derivecommon as DC

def run(tier, replay=None):
    c = vlib.Check("C03", tier, "model_checking")
    if replay:
        rej = DC.validate(c, "C03", replay)
        if rej: DC.report(c, "C03", rej)
        return c.finish()
    decls = DC.declarations(c, tier, with_encoded_as=True)
    # field renaming is metadata-only and judged by C09; C03 compares the declared identifiers
    for d in decls:
        for g in [d["fields"]] + [v["fields"] for v in d["variants"]]:
            for f in g: f["rename"] = []
    tr, failed = DC.observe(c, decls, True, 6 if tier == "thorough" else 4)
    if failed:
        src, g, diags = failed[0]
        raise vlib.ToolError("a generated derive+Encode program does not compile: %s\n%s" % (src, "\n".join(x["rendered"] for x in diags[:2])))
    DC.validate_all(c, "C03", tr)
    c.cov["exhaustive"] = False
    c.cov["rule"] = "declarations as for C09 (TLC-enumerated feature plans: every set of <=%d features, incl. encoded_as + seeded random declarations), each deriving TypeInfo and Encode; per type several random values with a value tree computed by an oracle generated from the DECLARATION; TLC decodes the real bytes using only the real PortableRegistry (ScaleValue.Dec) and requires exact consumption, same variant (first byte = metadata index), field names, order and leaves; reported indices follow codec(index) > discriminant > position among non-skipped" % (4 if tier == "thorough" else 2)
    c.assumptions += ["generic #[codec(compact)] members are outside the grammar (README known issue)", "values of skipped variants are not generated (they cannot be encoded)"]
    return c.finish()
