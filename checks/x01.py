"""X01 — extension check, NOT one of the listed properties and not in MANIFEST.json: the rest of the public
surface of the portable data model (accessors, Path helpers, resolve, From<definition>, PortableType::new)
against specs/Surface.tla. Grows the specification's coverage of the system; reports like a check but its
verdict line names no listed property."""
import json, os
import vlib

def run(tier, replay=None):
    c = vlib.Check("X01", tier, "model_checking")
    exe = os.path.join(vlib.cargo_build(["surface"]), "surface")
    tr = replay or os.path.join(c.wd, "surface.ndjson")
    if not replay:
        vlib.run([exe, "record", str(vlib.seed()), str(2000 if tier == "thorough" else 300), tr], check=True)
    evs = vlib.ndjson_read(tr)
    ok, info = vlib.tlc_trace("Trace_Surface", "Trace_Surface.cfg", c.wd, tr)
    c.add("traces_validated_against_impl", len(evs)); c.add("evaluations", len(evs)); c.add("trace_events", len(evs))
    res = info.get("res")
    c.cov["states"] = max(1, getattr(res, "distinct", 0) or len(evs)); c.cov["transitions"] = max(1, getattr(res, "generated", 0) or len(evs))
    if evs: c.sample({"surface_event_paths": evs[0].get("paths", [])[:2], "misc": evs[0].get("misc")})
    if not ok:
        bad = evs[info["at"] - 1]
        rp = c.replay_file("surface_event.ndjson", json.dumps(bad) + "\n")
        c.violation("surface", "recorded Surface event #%d does not satisfy Surface!SurfaceOK" % info["at"], rp)
    c.cov["rule"] = "random registries (all definition kinds, non-ASCII strings, boundary ids, non-dense ids) read through public fields and through every accessor, their paths through is_empty/ident/namespace/Display, resolve probed at every position and two beyond, From<definition> for every entry; TLC evaluates Surface!SurfaceOK on each event"
    return c.finish()
