"""Shared driver for the Registry-based properties C01, C02, C05, C11 (specs/Registry.tla)."""
import json, os
import vlib

INV = {
    "C01": ("INVARIANT C01_WellFormed", ""),
    "C02": ("INVARIANT C02_Faithful", "PROPERTY C02_Terminates"),
    "C05": ("INVARIANT C05_Once C05_OnePerIdentity C05_ExactlyReachable", "PROPERTY C05_HitIsNoop"),
    "C11": ("INVARIANT C05_ExactlyReachable C02_Faithful", "PROPERTY C11_Stable"),
}
ASPECT = {"C01": "c01", "C02": "c02", "C05": "c05", "C11": "c11"}

def refs_of(e):
    """ids an entry (plain neutral form) mentions, in traversal order"""
    out = [p["ty"][0] for p in e["params"] if p["ty"]]
    d = e["def"]; t = d["tag"]
    if t == "composite": out += [f["ty"] for f in d["fields"]]
    elif t == "variant": out += [f["ty"] for v in d["variants"] for f in v["fields"]]
    elif t in ("sequence", "array", "compact"): out.append(d["ty"])
    elif t == "tuple": out += d["tys"]
    elif t == "bitsequence": out += [d["store"], d["order"]]
    return out

def write_cfg(wd, name, body):
    p = os.path.join(wd, name)
    open(p, "w").write(body)
    return p

def mc_cfg(pid, wd, n, kids, hist, many, emit=False):
    inv, prop = INV[pid]
    body = "CONSTANTS\n N = %d\n MaxKids = %d\n MaxHist = %d\n WithMany = %s\n PhantomW = 6\nSPECIFICATION Spec\n" % (n, kids, hist, "TRUE" if many else "FALSE")
    body += ("INVARIANT Emit\n" if emit else inv + "\n" + prop + "\n") + "VIEW View\nCHECK_DEADLOCK FALSE\n"
    return write_cfg(wd, ("Gen" if emit else "MC") + "_Registry_%s.cfg" % pid, body)

def trace_cfg(pid, wd):
    return write_cfg(wd, "Trace_Registry_%s.cfg" % pid,
        'CONSTANTS\n PhantomW = 6\n Check = "%s"\nSPECIFICATION TSpec\nINVARIANT ModelInv\nCONSTRAINT Track\nPOSTCONDITION Accepted\nCHECK_DEADLOCK FALSE\n' % pid)

def segment(evs, at):
    s = min(at - 1, len(evs) - 1)
    while s > 0 and evs[s].get("ev") != "Universe": s -= 1
    e = s + 1
    while e < len(evs) and evs[e].get("ev") != "Universe": e += 1
    return evs[s:e]

def validate(c, pid, trace_path, what):
    evs = vlib.ndjson_read(trace_path)
    if pid != "C05":
        evs = [e for e in evs if e.get("ev") != "Eval"]
    tp = os.path.join(c.wd, "trace_%s.ndjson" % what)
    vlib.ndjson_write(tp, evs)
    ok, info = vlib.tlc_trace("Trace_Registry", trace_cfg(pid, c.wd), c.wd, tp)
    nseg = sum(1 for e in evs if e.get("ev") == "Universe")
    c.add("traces_validated_against_impl", nseg)
    c.add("trace_events", len(evs))
    c.add("evaluations", nseg)
    if evs: c.sample({"trace_events_head": [{k: (v if k != "info" and k != "types" else "...") for k, v in e.items()} for e in evs[1:4]]})
    if not ok:
        at = info["at"]
        seg = segment(evs, at)
        rp = c.replay_file("trace_%s_segment.ndjson" % what, "\n".join(json.dumps(x) for x in seg) + "\n")
        bad = evs[at - 1]
        key = "trace"
        c.violation(key, "event #%d (%s) of a recorded execution is not allowed by the specification under acceptor %s: %s" % (
            at, bad.get("ev"), pid, json.dumps({k: v for k, v in bad.items() if k not in ("types", "info")})[:300]), rp)
        return False
    return True

def run_reg(c, exe, args, what):
    p = vlib.run([exe] + args)
    if p.returncode in (-9, 137, -15):
        raise vlib.ToolError("reg %s was killed (exit %d: out of memory or external kill), not a verdict" % (what, p.returncode))
    if p.returncode != 0:
        last = [l for l in p.stderr.splitlines() if l.startswith("@")]
        rp = c.replay_file("crash_%s.txt" % what, (last[-1] if last else "") + "\n" + p.stderr[-2000:])
        if c.pid == "C02":
            c.violation("crash", "registration did not return normally (exit %d) on the case in the replay file" % p.returncode, rp)
            return None
        raise vlib.ToolError("reg %s crashed (exit %d); non-termination is judged by C02. last case: %s" % (what, p.returncode, last[-1][:500] if last else "?"))
    return p

def run(pid, tier, replay=None):
    c = vlib.Check(pid, tier, "model_checking")
    wd = c.wd
    exe = os.path.join(vlib.cargo_build(["reg"]), "reg")
    thorough = tier == "thorough"
    if replay:
        items = vlib.ndjson_read(replay)
        if items and "input" in items[0]:
            cf = os.path.join(wd, "cases.ndjson"); vlib.ndjson_write(cf, [i["input"] for i in items])
            replay_cases(c, pid, exe, cf, len(items))
        else:
            validate(c, pid, replay, "replay")
        return c.finish()
    # 1. design check (bounded exhaustive) of the property's invariants on the Registry specification
    runs = [(3, 2, 3, False)] + ([(3, 2, 2, True)] if thorough else [])      # (N, MaxKids, MaxHist, register_types too)
    c.cov["states"] = 0; c.cov["transitions"] = 0
    for (n, kids, hist, many) in runs:
        r = vlib.tlc_design("MC_Registry", mc_cfg(pid, wd, n, kids, hist, many), wd, workers=8, heap="12g")
        c.cov["states"] += r.distinct
        c.cov["transitions"] += r.generated
        # 2. spec -> impl: every terminal behaviour replayed on the real Registry
        g = vlib.tlc("MC_Registry", mc_cfg(pid, wd, n, kids, hist, many, emit=True), wd, workers=8, heap="12g")
        if not g.ok:
            raise vlib.ToolError("case emission failed: " + "\n".join(g.errors[:3]))
        cf = os.path.join(wd, "Gen_Registry_%s.cfg.out" % pid)
        ncases = sum(1 for l in open(cf) if l.startswith('<<"REPLAY"'))
        if ncases == 0:
            raise vlib.ToolError("no cases emitted")
        replay_cases(c, pid, exe, cf, ncases)
    many = thorough
    # 3. impl -> spec: seeded random universes (<=12 identities, all kinds, cycles, aliases, phantoms)
    tr = os.path.join(wd, "rand.ndjson")
    cnt = 600 if thorough else 120
    nested = "1" if pid == "C05" else os.environ.get("VERIF_NESTED", "1")
    if run_reg(c, exe, ["record", str(vlib.seed()), str(cnt), nested, tr], "record") is not None:
        validate(c, pid, tr, "rand")
    if pid == "C05":
        # (iv) built-in spellings: two expressions share an id exactly when their identity normal forms agree
        from checks import texprcommon as T
        cases = T.corpus(c, thorough, thorough)
        tr2 = T.observe(c, cases, 70, 1, limit=None)      # with one value per type: every valued type is ALSO registered alone, in a fresh registry
        T.validate(c, "C05", tr2)
    if pid == "C02":
        # the decisive leg on REAL types: universe extraction through MetaType::type_info() vs the registry
        from checks import texprcommon as T, derivecommon as DC
        cases = T.corpus(c, thorough, thorough)
        tr4 = T.observe(c, cases, 70, 0, limit=None)
        T.validate(c, "C02", tr4)
        decls = DC.declarations(c, tier, with_encoded_as=True, nrand=600 if thorough else 150, for_codec=False)
        tr5, failed = DC.observe(c, decls, False, 0)
        if failed: raise vlib.ToolError("derive program does not compile: %s" % failed[0][0])
        DC.validate_all(c, "C02", tr5)
    if pid == "C11":
        # (iii) on real built-in types: each corpus program registers its expressions in three orders
        from checks import texprcommon as T
        cases = T.corpus(c, thorough, thorough)
        tr3 = T.observe(c, cases, 70, 0, limit=None)
        T.validate(c, "C11", tr3)
    if pid == "C01":
        from checks import c10
        c10.legs(c, "C01", tier)        # producer 3: retain on a well-formed registry
        # producer 1 on REAL types: every registry the type-expression programs build (one shared registry per program,
        # the same roots in two more orders, every valued type alone) - incl. chains nested 70 / 100 deep
        from checks import texprcommon as T
        cases = T.corpus(c, thorough, thorough)
        tr6 = T.observe(c, cases, 70, 1, limit=None)
        T.validate(c, "C01", tr6)
        builder_leg(c, tier)            # producer 2: the runtime builder (producer 4, decode(encode(.)), rides on the traces above)
    c.cov["exhaustive"] = True
    c.cov["rule"] = ("design: all universes on 3 identities with <=2 ordered children (2197 graphs, alias spellings on edges, every definition kind incl. empty arrays, marker types, parameters with and without a type on composite / sequence / tuple definitions, raw-identifier paths) x all histories of 3 registrations%s; "
                     "spec->impl: every terminal behaviour replayed through runtime-configurable Node<I> types on the real Registry; "
                     "impl->spec: %d seeded random universes (<=12 identities, all 8 kinds, cycles, wrappers incl. wrappers of wrappers, phantoms) with register_type/register_types/map_into_portable histories, validated by TLC under acceptor %s") % (" incl. register_types" if many else "", cnt, pid)
    c.assumptions += ["small-scope hypothesis (3 identities exhaustively, 12 randomly)", "the harness's Node<I> types are a faithful stand-in for arbitrary user TypeInfo impls",
                      "TLC, the projection code in harness/vh/src/proj.rs and serde_json are trusted"]
    return c.finish()

def builder_leg(c, tier):
    wd = c.wd
    r = vlib.tlc("MC_Builder", write_cfg(wd, "MC_Builder.cfg", "CONSTANTS MaxOps = %d MaxRef = 3\nSPECIFICATION Spec\nINVARIANT C01_BuilderDense C01_BuilderClosedIffDisciplined Emit\nCHECK_DEADLOCK FALSE\n" % (5 if tier == "thorough" else 4)), wd, workers=4)
    if not r.ok: raise vlib.ToolError("MC_Builder failed: " + "\n".join(r.errors[:3]))
    c.add("states", r.distinct); c.add("transitions", r.generated)
    out = os.path.join(wd, "MC_Builder.cfg.out")
    n = sum(1 for l in open(out) if l.startswith('<<"CASE"'))
    if n != r.distinct: raise vlib.ToolError("builder history emission incomplete")
    x = os.path.join(vlib.cargo_build(["interner"]), "interner")
    mf = os.path.join(wd, "builder_mismatch.ndjson")
    p = vlib.run([x, "builder", out, mf])
    if p.returncode != 0: raise vlib.ToolError("interner builder crashed: " + p.stderr[-1500:])
    s = json.loads(p.stdout.strip().splitlines()[-1])
    if s["executed"] != n: raise vlib.ToolError("builder replay incomplete")
    c.add("evaluations", n); c.add("builder_histories_replayed_on_impl", n); c.add("traces_validated_against_impl", n)
    bad = vlib.ndjson_read(mf)
    if bad:
        rp = c.replay_file("builder_histories_mismatch.ndjson", "\n".join(json.dumps(b) for b in bad[:30]) + "\n")
        c.violation("builder", "%d builder histories: %s (ops %s)" % (len(bad), bad[0]["mismatch"][0], json.dumps(bad[0]["input"]["ops"])), rp)

def replay_cases(c, pid, exe, cases_file, ncases):
    mf = os.path.join(c.wd, "mismatch.ndjson")
    p = run_reg(c, exe, ["replay", cases_file, mf], "replay")
    if p is None:
        return
    s = json.loads(p.stdout.strip().splitlines()[-1])
    if s["executed"] != ncases:
        raise vlib.ToolError("replayed %d of %d cases" % (s["executed"], ncases))
    c.add("evaluations", ncases)
    c.add("behaviours_replayed_on_impl", ncases)
    c.add("traces_validated_against_impl", ncases)
    mine = []
    c.add("model_disagreements", sum(1 for m in vlib.ndjson_read(mf) if any(x["aspect"] == "model" for x in m["mismatch"])))
    for m in vlib.ndjson_read(mf):
        a = [x for x in m["mismatch"] if x["aspect"] == ASPECT[pid]]
        if a:
            mine.append(dict(m, mismatch=a))
    first = None
    with open(cases_file) as f:
        for l in f:
            if l.startswith('<<"REPLAY"') or l.startswith("{"):
                first = l[:600]; break
    c.sample({"replay_case_head": first})
    if mine:
        rp = c.replay_file("cases_mismatch.ndjson", "\n".join(json.dumps(b) for b in mine[:50]) + "\n")
        c.violation("replay", "%d TLC behaviours disagree with the real Registry; first: %s on hist %s" % (
            len(mine), json.dumps(mine[0]["mismatch"])[:300], json.dumps(mine[0]["input"]["hist"])), rp)
