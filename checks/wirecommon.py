"""Shared driver for the SCALE wire-format properties C06, C07 and the byte half of C14 (specs/Wire.tla)."""
import json, os
import vlib

def cfg(wd, name, body):
    p = os.path.join(wd, name); open(p, "w").write(body); return p

def trace_cfg(wd, pid):
    return cfg(wd, "Trace_Wire_%s.cfg" % pid, 'CONSTANTS\n Check = "%s"\nSPECIFICATION Spec\nCONSTRAINT Track\nPOSTCONDITION Accepted\nCHECK_DEADLOCK FALSE\n' % pid)

def exe():
    return os.path.join(vlib.cargo_build(["wire"]), "wire")

def count_cases(path):
    return sum(1 for l in open(path) if l.startswith('<<"CASE"'))

def layout_leg(c, pid, x):
    """design: DecReg(EncReg(r)) = r on the enumerated registries; spec->impl: each (registry, bytes) on real encode/decode"""
    wd = c.wd
    big = "{1100, 4200, 16384}" if c.tier == "thorough" else "{1100}"
    r = vlib.tlc("MC_Wire", cfg(wd, "MC_Wire_layout.cfg", 'CONSTANTS Mode = "layout" MaxFaults = 0 Stride = 1 BigLens = %s\nSPECIFICATION Spec\nINVARIANT FormatRoundTrip FormatCanonical EmitLayout\nCHECK_DEADLOCK FALSE\n' % big), wd, workers=4, heap="8g", stack=True)
    if not r.ok: raise vlib.ToolError("Wire design check failed: " + "\n".join(r.errors[:3]))
    c.add("states", r.distinct); c.add("transitions", r.generated)
    out = os.path.join(wd, "MC_Wire_layout.cfg.out")
    n = count_cases(out)
    if n != r.distinct: raise vlib.ToolError("layout case emission incomplete")
    replay_layout(c, pid, x, out, n)

def replay_layout(c, pid, x, cases, n):
    mf = os.path.join(c.wd, "layout_mismatch.ndjson")
    p = vlib.run([x, "layout", cases, mf])
    if p.returncode != 0: raise vlib.ToolError("wire layout crashed: " + p.stderr[-2000:])
    s = json.loads(p.stdout.strip().splitlines()[-1])
    if s["executed"] != n: raise vlib.ToolError("layout replay incomplete")
    c.add("evaluations", n); c.add("traces_validated_against_impl", n)
    asp = pid.lower()
    mine = [dict(m, mismatch=[y for y in m["mismatch"] if y["aspect"] == asp]) for m in vlib.ndjson_read(mf)]
    mine = [m for m in mine if m["mismatch"]]
    if mine:
        rp = c.replay_file("layout_cases_mismatch.ndjson", "\n".join(json.dumps(b) for b in mine[:30]) + "\n")
        c.violation("layout", "%d enumerated registries: %s" % (len(mine), mine[0]["mismatch"][0]["msg"][:300]), rp)

def trace_leg(c, pid, x, count):
    tr = os.path.join(c.wd, "wire_rand.ndjson")
    vlib.run([x, "record", str(vlib.seed()), str(count), tr], check=True)
    # keep the history acceptor's state small: a Reset every 120 events
    evs = vlib.ndjson_read(tr)
    out = []
    for i, e in enumerate(evs):
        if i % 120 == 0: out.append({"ev": "Reset"})
        out.append(e)
    vlib.ndjson_write(tr, out)
    validate(c, pid, tr)

def validate(c, pid, tr):
    evs = vlib.ndjson_read(tr)
    ok, info = vlib.tlc_trace("Trace_Wire", trace_cfg(c.wd, pid), c.wd, tr, heap="6g")
    c.add("trace_events", len(evs)); c.add("traces_validated_against_impl", len(evs)); c.add("evaluations", len(evs))
    for e in evs:
        if e.get("ev") != "Reset":
            c.sample({"event": {k: (v if k != "reg" else "<%d entries>" % len(v)) for k, v in e.items()}}); break
    if not ok:
        at = info["at"]; bad = evs[at - 1]
        s = at - 1
        while s > 0 and evs[s].get("ev") != "Reset": s -= 1
        seg = evs[s:at]
        rp = c.replay_file("wire_trace_segment.ndjson", "\n".join(json.dumps(b) for b in seg) + "\n")
        c.violation("trace", "event #%d (%s) is not allowed by the specification under acceptor %s; bytes head %s" % (at, bad.get("ev"), pid, bad.get("bytes", [])[:24]), rp)

def run(pid, tier, replay=None):
    c = vlib.Check(pid, tier, "model_checking")
    x = exe()
    if replay:
        items = vlib.ndjson_read(replay)
        if items and "input" in items[0]:
            cf = os.path.join(c.wd, "cases.ndjson"); vlib.ndjson_write(cf, [i["input"] for i in items]); replay_layout(c, pid, x, cf, len(items))
        else:
            validate(c, pid, replay)
        return c.finish()
    layout_leg(c, pid, x)
    trace_leg(c, pid, x, 1500 if tier == "thorough" else 250)
    c.cov["exhaustive"] = True
    c.cov["rule"] = "registries enumerated production by production (every definition kind and primitive, ids over the 8 compact-size boundaries, absent/empty/1/64-byte/multi-byte strings, every sequence-valued part with 0/1/2/63/64/255/256/257 elements and the entry vector / tuple members / docs also with >= 1100, non-dense ids): format lemmas model-checked, each replayed on real encode/decode; plus random registries (hostile strings, ill-formed ids, near-miss pairs, trailing junk) validated by TLC against EncReg/DecReg (C06) or the round-trip history acceptor (C07)"
    c.assumptions += ["inputs < 64 KiB", "TLC, harness projection (proj.rs, public constructors only) and serde_json trusted"]
    return c.finish()
