"""C07 — see wirecommon.py and DESIGN.md section 5."""
from checks import wirecommon

def run(tier, replay=None):
    return wirecommon.run("C07", tier, replay)
