"""C19 — see jsoncommon.py."""
from checks import jsoncommon

def run(tier, replay=None):
    return jsoncommon.run_c19(tier, replay)
