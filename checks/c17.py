"""C17 — builders are lossless and order preserving; PhantomData members are erased."""
import vlib
from checks import bldcommon as BC, texprcommon as T

def run(tier, replay=None):
    c = vlib.Check("C17", tier, "model_checking")
    thorough = tier == "thorough"
    if replay and replay.endswith(".ndjson"):
        T.validate(c, "C17", replay); return c.finish()
    maxcalls = 5 if thorough else 4
    for docs in (False, True):
        cases = BC.explore(c, docs, maxcalls, "POS")
        BC.run_positive(c, cases, docs)
    # PhantomData erasure by the built-in impls (tuples, Option/Result/Cow/... members)
    cases = T.corpus(c, thorough, False)
    if not thorough:     # every expression that mentions a marker type; thorough: the whole corpus
        cases = [x for x in cases if "PhantomData" in __import__("json").dumps(x["e"])]
    tr = T.observe(c, cases, 70, 0)
    T.validate(c, "C17", tr)
    # PhantomData erasure by the derive (members of structs and variants, also behind Box/&)
    from checks import derivecommon as DC
    decls = DC.declarations(c, tier, with_encoded_as=False, nrand=400 if thorough else 120)
    decls = [d for d in decls if "phantom" in __import__("json").dumps(d)]
    for i, d in enumerate(decls): d["id"] = i
    tr2, failed = DC.observe(c, decls, False, 0)
    if failed: raise vlib.ToolError("derive program does not compile: %s" % failed[0][0])
    DC.validate_all(c, "C17", tr2)
    c.cov["exhaustive"] = True
    c.cov["rule"] = "complete exploration of the builder automaton (FieldBuilder, FieldsBuilder, VariantBuilder, Variants, TypeBuilder; compile-time and portable form; docs feature off and on) up to %d calls per builder over a small argument alphabet incl. two PhantomData spellings: every complete legal sequence rendered, compiled and run, the built value compared with the specification's; built-in impls: no observed definition lists a PhantomData member" % maxcalls
    c.assumptions += ["nested closures are drawn from fixed sets of inner sequences", "erasure by the derive is exercised by C09's generated programs"]
    return c.finish()
