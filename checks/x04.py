"""X04 — extension check, NOT one of the listed properties and not in MANIFEST.json's checks: trace validation of the
REPOSITORY'S OWN TESTS. /repo carries cfg-guarded hooks (`--cfg scale_info_verif`, src/verif_hooks.rs, recorded in
MANIFEST.hooks) that log enter / exit of Registry::register_type and the ids a converted registry lists. The check
builds /repo's current tree with the guard on, runs the pinned test suite and the doc tests (and the harness's
random registration histories) with the hooks writing a trace, and lets TLC validate every registry's events against
specs/RegHooks.tla (the interning discipline: first-come dense ids, a hit evaluates nothing, proper nesting, the
converted registry lists exactly the ids handed out)."""
import json, os, re, shutil, subprocess
import vlib
from checks import regcommon as R

FLAGS = "--cfg scale_info_verif"

def grouped(path):
    """the log grouped by (process, registry tag), each group in file order, concatenated; a group starts with `new`"""
    groups, order = {}, []
    for l in open(path):
        l = l.strip()
        if not l: continue
        e = json.loads(l)
        k = (e["pid"], e["reg"])
        if k not in groups: groups[k] = []; order.append(k)
        groups[k].append({x: y for x, y in e.items() if x not in ("pid", "reg")})
    out = []
    for k in order:
        g = groups[k]
        if not g or g[0]["ev"] != "new": g = [{"ev": "new"}] + g       # (a registry whose creation another process logged cannot occur; defensive)
        out += g
    return out, len(order)

def validate(c, events, name):
    tr = os.path.join(c.wd, name + ".ndjson")
    vlib.ndjson_write(tr, events)
    ok, info = vlib.tlc_trace("Trace_RegHooks", "Trace_RegHooks.cfg", c.wd, tr)
    c.add("trace_events", len(events)); c.add("traces_validated_against_impl", sum(1 for e in events if e["ev"] == "new"))
    if not ok:
        at = info["at"]; s = at - 1
        while s > 0 and events[s]["ev"] != "new": s -= 1
        rp = c.replay_file("hook_trace_%s.ndjson" % name, "\n".join(json.dumps(e) for e in events[s:at + 3]) + "\n")
        c.violation("hooks-" + name, "event #%d (%s) of a registry's hook trace is not a step of the interning discipline (RegHooks): %s" % (at - s, events[at - 1]["ev"], json.dumps(events[at - 1])[:200]), rp)
    return ok

def run(tier, replay=None):
    c = vlib.Check("X04", tier, "model_checking")
    wd = c.wd
    r = vlib.tlc_design("MC_RegHooks", "MC_RegHooks.cfg", wd, workers=4)
    c.cov["states"] = r.distinct; c.cov["transitions"] = r.generated
    if replay:
        validate(c, vlib.ndjson_read(replay), "replay"); return c.finish()
    repo = vlib.ALT_REPO or vlib.REPO
    if not os.path.exists(os.path.join(repo, "src", "verif_hooks.rs")):
        raise vlib.ToolError("the tree at %s has no hooks (src/verif_hooks.rs)" % repo)
    # 1. the repository's own tests and doc tests with the hooks on
    tdir = os.path.join(wd, "target"); log = os.path.join(wd, "suite_hooks.ndjson")
    if os.path.exists(log): os.unlink(log)
    env = dict(os.environ, RUSTFLAGS=FLAGS, RUSTDOCFLAGS=FLAGS, CARGO_TARGET_DIR=tdir, SCALE_INFO_VERIF_TRACE=log, CARGO_NET_OFFLINE="true")
    with vlib.Lock("cargo"):
        p = subprocess.run(["cargo", "test", "--workspace", "--no-fail-fast", "--offline"], cwd=repo, env=env, stdout=subprocess.PIPE, stderr=subprocess.STDOUT, text=True)
    passed = sum(int(x) for x in re.findall(r"test result: \w+\. (\d+) passed", p.stdout))
    failed = [l for l in p.stdout.splitlines() if re.match(r"^test .* FAILED$", l) and "ui_tests" not in l]
    c.cov["suite_tests_passed_with_hooks_on"] = passed
    if failed or passed < 79:
        raise vlib.ToolError("the pinned suite does not pass with the hooks on (%d passed, failed: %s)\n%s" % (passed, failed[:3], p.stdout[-1500:]))
    if not os.path.exists(log): raise vlib.ToolError("the hooks wrote no trace")
    ev, n = grouped(log)
    c.cov["registries_in_the_suite"] = n
    validate(c, ev, "suite")
    c.sample({"first_events_of_the_suite_trace": ev[:6]})
    # 2. the harness's random registration histories (universes with cycles, aliases, markers) with the hooks on
    log2 = os.path.join(wd, "harness_hooks.ndjson")
    if os.path.exists(log2): os.unlink(log2)
    td2 = vlib.TARGET + "-hooks"
    cmd = ["cargo", "build", "--offline", "-q", "-p", "vh", "--bin", "reg", "--target-dir", td2] + (["--config", 'paths=["%s"]' % vlib.ALT_REPO] if vlib.ALT else [])
    with vlib.Lock("cargo"):
        b = vlib.run(cmd, cwd=vlib.HARNESS, env={"CARGO_NET_OFFLINE": "true", "RUSTFLAGS": "-Awarnings " + FLAGS})
    if b.returncode != 0: raise vlib.ToolError("harness build with hooks failed:\n" + b.stderr[-3000:])
    exe = os.path.join(td2, "debug", "reg")
    q = vlib.run([exe, "record", str(vlib.seed()), str(400 if tier == "thorough" else 100), "1", os.path.join(wd, "rand.ndjson")], env={"SCALE_INFO_VERIF_TRACE": log2})
    if q.returncode != 0: raise vlib.ToolError("reg record (hooks on) failed: " + q.stderr[-1500:])
    ev2, n2 = grouped(log2)
    c.cov["registries_in_the_harness_run"] = n2
    validate(c, ev2, "harness")
    # 3. programs over REAL built-in types (the type-expression corpus of C04/C05: every constructor, aliases, markers,
    #    the unit type first, chains nested 70 / 100 deep), linked against the hooked library
    from checks import texprcommon as T
    log3 = os.path.join(wd, "texpr_hooks.ndjson")
    if os.path.exists(log3): os.unlink(log3)
    cases = T.corpus(c, tier == "thorough", False)
    try:
        T.observe(c, cases, 70, 1, limit=None if tier == "thorough" else 12, hooks_log=log3)
    finally:
        os.environ.pop("SCALE_INFO_VERIF_TRACE", None)
    ev3, n3 = grouped(log3)
    c.cov["registries_in_the_type_expression_programs"] = n3
    validate(c, ev3, "texpr")
    c.cov["rule"] = "the pinned test suite and the doc tests of /repo's current tree, built with --cfg scale_info_verif, every Registry they create logged by the hooks (enter / exit of register_type, ids listed on conversion) and validated by TLC against RegHooks; the same for seeded random registration histories of the harness and for programs over the built-in type-expression corpus (real types, deep nesting, every registry they build incl. one per valued type alone); RegHooks itself model-checked over 3 identities, nesting <= 4"
    c.assumptions += ["events of one registry are totally ordered by the sink's mutex (a Registry is only used through &mut self)", "grouping the log by (process, registry tag) loses nothing: registries are independent objects"]
    return c.finish()
