"""Shared driver for the builder automaton (specs/TypeBuilders.tla): C17 (positive sequences) and C20 (frontier)."""
import json, os, sys
import vlib, rsprog
sys.path.insert(0, vlib.VERIF)
from gen import builders as B

def cfg(wd, name, body):
    p = os.path.join(wd, name); open(p, "w").write(body); return p

def explore(c, docs, maxcalls, want):
    """TLC: design invariants + emission. want: 'POS' or 'NEG'. Returns list of cases."""
    wd = c.wd
    name = "MC_TypeBuilders_%s_%s.cfg" % (want, "docs" if docs else "nodocs")
    r = vlib.tlc("MC_TypeBuilders", cfg(wd, name, "CONSTANTS MaxCalls = %d DocsFeature = %s\nSPECIFICATION Spec\nINVARIANT C17_NoPhantom C20_NoIllFormed %s\nCHECK_DEADLOCK FALSE\n" % (maxcalls, "TRUE" if docs else "FALSE", "EmitPos" if want == "POS" else "EmitNeg")), wd, workers=1, heap="6g")
    if not r.ok: raise vlib.ToolError("TypeBuilders design check failed: " + "\n".join(r.errors[:3]) + r.out[-1500:])
    c.add("states", r.distinct); c.add("transitions", r.generated)
    return r.lines(want)

# ARGUMENT VALUES: the specification is parametric in the strings supplied (it only stores them), so every case may
# be re-stated with other strings in the same positions - the empty string, blanks, a raw identifier, non-ASCII text:
# what is supplied must come out verbatim whatever it is (paths are left alone: Path::new validates them)
SIGMAS = [{"a": "", "b": " ", "T1": "  ", "d1": "", "d2": " "},
          {"a": "r#a", "b": "\u00e9\u65e5", "T1": "", "d1": " d", "d2": ""}]
def subst(v, sg):
    if isinstance(v, dict): return {k: subst(x, sg) for k, x in v.items()}
    if isinstance(v, list): return [subst(x, sg) for x in v]
    if isinstance(v, str) and v in sg: return sg[v]
    return v
def with_argument_values(cases):
    out = list(cases)
    for sg in SIGMAS:
        keys = ['"%s"' % k for k in sg]
        out += [subst(cs, sg) for cs in cases if any(k in json.dumps(cs["calls"]) for k in keys)]
    return out

def run_positive(c, cases, docs):
    wd = c.wd
    cases = with_argument_values(cases)
    deps = rsprog.Deps(("docs",) if docs else ())
    pd = os.path.join(wd, "progs_" + ("docs" if docs else "nodocs")); os.makedirs(pd, exist_ok=True)
    jobs, per = [], 200
    for k in range(0, len(cases), per):
        src = os.path.join(pd, "b%03d.rs" % (k // per))
        open(src, "w").write(B.positive_program(cases[k:k + per], k))
        jobs.append((src, src[:-3]))
    res = deps.compile_many(jobs)
    for (src, _), (ok, diags) in zip(jobs, res):
        if not ok:
            # a legal sequence that does not compile: the typestate protocol rejects something the specification allows
            bad = diags[0]["rendered"] if diags else "?"
            rp = c.replay_file("legal_sequence_rejected.rs", open(src).read())
            c.violation("legal-rejected", "a batch of legal builder call sequences does not compile (docs=%s): %s" % (docs, bad[:400]), rp)
            return
    got, gotp = {}, {}
    for (src, exe) in jobs:
        p = rsprog.run_prog(exe)
        if p.returncode != 0:
            rp = c.replay_file("builder_panic.rs", open(src).read())
            c.violation("panic", "a legal builder call sequence panicked: %s" % p.stderr[-300:], rp); return
        for l in p.stdout.splitlines():
            o = json.loads(l); got[o["i"]] = o["res"]
            if "pres" in o: gotp[o["i"]] = o["pres"]
        vlib.discard(exe)
    c.add("programs", len(jobs)); c.add("evaluations", len(cases)); c.add("traces_validated_against_impl", len(cases))
    def blank(v):      # type references blanked: the portable form carries ids
        if isinstance(v, dict): return {k: (["*"] * len(x) if isinstance(x, list) else "*") if k == "ty" else blank(x) for k, x in v.items()}
        if isinstance(v, list): return [blank(x) for x in v]
        return v
    badp = [(i, cs) for i, cs in enumerate(cases) if i in gotp and gotp[i] != blank(cs["res"])]
    if badp:
        i, cs = badp[0]
        rp = c.replay_file("builder_portable_mismatch_%s.json" % ("docs" if docs else "nodocs"), [{"rust": B.expr(x), "case": x, "portable": gotp.get(j)} for j, x in badp[:30]])
        c.violation("builder-portable", "%d legal call sequences lose something when the built value is converted to the portable form (docs=%s); first: %s => %s, expected %s" % (len(badp), docs, B.expr(cs), json.dumps(gotp.get(i))[:200], json.dumps(blank(cs["res"]))[:200]), rp)
    bad = [(i, cs) for i, cs in enumerate(cases) if got.get(i) != cs["res"]]
    c.sample({"sequence": B.expr(cases[len(cases) // 2]), "expected": cases[len(cases) // 2]["res"]})
    if bad:
        i, cs = bad[0]
        rp = c.replay_file("builder_mismatch_%s.json" % ("docs" if docs else "nodocs"), [{"rust": B.expr(x), "case": x, "got": got.get(j)} for j, x in bad[:30]])
        c.violation("builder", "%d legal call sequences build something else than supplied (docs=%s); first: %s => %s, expected %s" % (len(bad), docs, B.expr(cs), json.dumps(got.get(i))[:200], json.dumps(cs["res"])[:200]), rp)
