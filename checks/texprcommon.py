"""Shared driver for the type-expression corpus (C04, C05 iv, C16, C17 phantom): TLC enumerates built-in
type expressions (specs/MC_TypeExpr.tla), generated programs observe the real library on them, TLC validates
the observations under the property's acceptor (specs/Trace_TypeExpr.tla)."""
import json, os, sys
import vlib, rsprog
sys.path.insert(0, vlib.VERIF)
from gen import texpr as G

def cfg(wd, name, body):
    p = os.path.join(wd, name); open(p, "w").write(body); return p

def corpus(c, depth2, depth3):
    wd = c.wd
    r = vlib.tlc("MC_TypeExpr", cfg(wd, "MC_TypeExpr.cfg", "CONSTANTS Depth2 = %s Depth3 = %s\nSPECIFICATION Spec\nINVARIANT NFIdempotent Coherent C17_NoPhantomMember ClosedUnderChildren Emit\nCHECK_DEADLOCK FALSE\n" % (("TRUE" if depth2 else "FALSE"), ("TRUE" if depth3 else "FALSE"))), wd, workers=4, heap="6g", stack=True)
    if not r.ok: raise vlib.ToolError("TypeExpr design check failed: " + "\n".join(r.errors[:3]) + r.out[-1500:])
    cases = r.lines("CASE")
    if len(cases) != r.distinct: raise vlib.ToolError("expression emission incomplete: %d of %d" % (len(cases), r.distinct))
    c.add("states", r.distinct); c.add("transitions", r.generated)
    cases.sort(key=lambda x: json.dumps(x["e"], sort_keys=True))
    return cases

def observe(c, cases, per_prog, nvals, features=(), limit=None, hooks_log=None, rustc_extra=()):
    """render, compile, run; returns path of the concatenated trace and number of programs. hooks_log: the programs are
    linked against the library built with its trace hooks on, which append to that file (extension check X04)"""
    wd = c.wd
    deps = rsprog.Deps(features, hooks=bool(hooks_log))
    if hooks_log: os.environ["SCALE_INFO_VERIF_TRACE"] = hooks_log
    chunks = G.chunk(cases, per_prog)
    if limit: chunks = chunks[:limit]
    pd = os.path.join(wd, "progs"); os.makedirs(pd, exist_ok=True)
    jobs = []
    for i, ch in enumerate(chunks):
        src = os.path.join(pd, "t%03d.rs" % i)
        open(src, "w").write(G.program(ch, vlib.seed() * 1000 + i, nvals))
        jobs.append((src, os.path.join(pd, "t%03d" % i)))
    res = deps.compile_many(jobs, extra=rustc_extra)
    for (src, _), (ok, diags) in zip(jobs, res):
        if not ok:
            raise vlib.ToolError("generated program %s does not compile (generator or library API problem, not a verdict):\n%s" % (src, "\n".join(d["rendered"] for d in diags[:3])))
    tr = os.path.join(wd, "texpr_trace.ndjson")
    nexpr = nval = 0
    with open(tr, "w") as f:
        for (src, exe) in jobs:
            p = rsprog.run_prog(exe)
            if p.returncode != 0:
                raise vlib.ToolError("generated program %s crashed: %s" % (src, p.stderr[-1500:]))
            f.write(p.stdout)
            nexpr += p.stdout.count('"ev":"Expr"'); nval += p.stdout.count('"ev":"Value"')
            vlib.discard(exe)
    c.add("programs", len(jobs)); c.add("expressions_observed", nexpr); c.add("values_observed", nval); c.add("evaluations", nexpr + nval)
    c.sample({"program_head": open(jobs[0][0]).read()[:600]})
    return tr

def validate(c, pid, tr, docs_on=False):
    tc = cfg(c.wd, "Trace_TypeExpr_%s.cfg" % pid, 'CONSTANTS\n Check = "%s"\n DocsOn = %s\nSPECIFICATION Spec\nCONSTRAINT Track\nPOSTCONDITION Accepted\nVIEW View\nCHECK_DEADLOCK FALSE\n' % (pid, "TRUE" if docs_on else "FALSE"))
    ok, info = vlib.tlc_trace("Trace_TypeExpr", tc, c.wd, tr, heap="8g")
    n = sum(1 for _ in open(tr))
    c.add("trace_events", n); c.add("traces_validated_against_impl", n)
    if not ok:
        evs = vlib.ndjson_read(tr)
        at = info["at"]; bad = evs[at - 1]
        s = at - 1
        while s > 0 and not (evs[s].get("ev") == "Expr" and evs[s].get("i") == 0): s -= 1
        e = at
        while e < len(evs) and not (evs[e].get("ev") == "Expr" and evs[e].get("i") == 0): e += 1
        seg = [x for x in evs[s:e] if x.get("ev") in ("Expr", "Reg", "Matrix")] + ([bad] if bad.get("ev") in ("Value", "Perm") else [])
        rp = c.replay_file("texpr_segment_%s.ndjson" % pid, "\n".join(json.dumps(x) for x in seg) + "\n")
        what = ""
        if bad.get("ev") == "Value":
            exprs = [x for x in evs[s:e] if x.get("ev") == "Expr"]
            what = " value of %s: bytes %s" % (G.rust(exprs[bad["i"]]["e"]), bad["bytes"][:24])
        c.violation("texpr", "event #%d (%s) rejected by acceptor %s;%s" % (at, bad.get("ev"), pid, what), rp)
    return ok
