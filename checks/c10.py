"""C10 — retain keeps exactly the reachable sub-registry, renumbered consistently (specs/Retain.tla)."""
import json, os
import vlib

def cfg(wd, name, body):
    p = os.path.join(wd, name); open(p, "w").write(body); return p

def expand_again(src, dst):
    out = []
    for e in vlib.ndjson_read(src):
        a = e.pop("again", None)
        out.append(e)
        if a and "new" in a:   # retain applied to a registry retain produced
            out.append({"ev": "Retain", "old": e["new"], "keep": list(range(len(e["new"]))), "map": a["map"], "new": a["new"]})
    vlib.ndjson_write(dst, out)
    return out

def validate(c, pid, trace_path):
    tc = cfg(c.wd, "Trace_Retain_%s.cfg" % pid, 'CONSTANTS\n Check = "%s"\nSPECIFICATION XSpec\nINVARIANT DoneOK PlaceholderNeverRead\nCONSTRAINT Track\nPOSTCONDITION Accepted\nCHECK_DEADLOCK FALSE\n' % pid)
    evs = vlib.ndjson_read(trace_path)
    ok, info = vlib.tlc_trace("Trace_Retain", tc, c.wd, trace_path)
    c.add("traces_validated_against_impl", len(evs)); c.add("evaluations", len(evs))
    if evs: c.sample({"retain_event": {k: evs[0][k] for k in ("keep", "map") if k in evs[0]}, "old_len": len(evs[0]["old"])})
    if not ok:
        bad = evs[info["at"] - 1]
        rp = c.replay_file("retain_event.ndjson", json.dumps(bad) + "\n")
        c.violation("trace", "recorded retain call #%d is not what the specification computes (acceptor %s): keep=%s map=%s" % (info["at"], pid, bad.get("keep"), bad.get("map", bad.get("panic"))), rp)

def run_bin(c, exe, args, what):
    p = vlib.run([exe] + args)
    if p.returncode in (-9, 137, -15):
        raise vlib.ToolError("retain %s was killed (exit %d), not a verdict" % (what, p.returncode))
    if p.returncode != 0:
        last = [l for l in p.stderr.splitlines() if l.startswith("@")]
        rp = c.replay_file("crash_%s.txt" % what, (last[-1] if last else "") + "\n" + p.stderr[-2000:])
        if c.pid == "C10":
            c.violation("crash", "retain did not return (exit %d, stack overflow or abort) on the case in the replay file" % p.returncode, rp)
            return None
        raise vlib.ToolError("retain %s crashed (exit %d); termination of retain is judged by C10" % (what, p.returncode))
    return p

def replay_cases(c, pid, exe, cases_file, ncases):
    mf = os.path.join(c.wd, "retain_mismatch.ndjson")
    p = run_bin(c, exe, ["replay", cases_file, mf], "replay")
    if p is None: return
    s = json.loads(p.stdout.strip().splitlines()[-1])
    if s["executed"] != ncases:
        raise vlib.ToolError("replayed %d of %d retain cases" % (s["executed"], ncases))
    c.add("evaluations", ncases); c.add("retain_behaviours_replayed_on_impl", ncases); c.add("traces_validated_against_impl", ncases)
    asp = "c10" if pid == "C10" else "c01"
    mine = [dict(m, mismatch=[x for x in m["mismatch"] if x["aspect"] == asp]) for m in vlib.ndjson_read(mf)]
    mine = [m for m in mine if m["mismatch"]]
    if mine:
        rp = c.replay_file("retain_cases_mismatch.ndjson", "\n".join(json.dumps(b) for b in mine[:50]) + "\n")
        c.violation("replay", "%d TLC retain behaviours disagree with the real retain; first: %s keep=%s" % (len(mine), json.dumps(mine[0]["mismatch"])[:300], mine[0]["input"]["keep"]), rp)

def legs(c, pid, tier):
    wd = c.wd
    exe = os.path.join(vlib.cargo_build(["retain"]), "retain")
    thorough = tier == "thorough"
    n = 4 if (thorough and pid == "C10") else 3
    inv = "INVARIANT DoneOK PlaceholderNeverRead SlotsFilled\nPROPERTY Terminates\n" if pid == "C10" else "INVARIANT DoneOK\n"
    r = vlib.tlc_design("MC_Retain", cfg(wd, "MC_Retain_%s.cfg" % pid, "CONSTANTS\n N = %d\n MaxKids = 2\n WithOutside = %s\n KindShifts = {0}\nSPECIFICATION Spec\n%sCHECK_DEADLOCK FALSE\n" % (n, "TRUE" if n == 3 else "FALSE", inv)), wd, workers=12 if n == 4 else 8, heap="24g" if n == 4 else "8g", timeout=3 * 3600)
    c.add("states", r.distinct); c.add("transitions", r.generated)
    g = vlib.tlc("MC_Retain", cfg(wd, "Gen_Retain_%s.cfg" % pid, "CONSTANTS\n N = 3\n MaxKids = %d\n WithOutside = TRUE\n KindShifts = {0, 1, 2, 3}\nSPECIFICATION Spec\nINVARIANT Emit\nCHECK_DEADLOCK FALSE\n" % (3 if thorough else 2)), wd, workers=8, heap="8g")
    if not g.ok: raise vlib.ToolError("retain case emission failed: " + "\n".join(g.errors[:3]))
    cf = os.path.join(wd, "Gen_Retain_%s.cfg.out" % pid)
    ncases = sum(1 for l in open(cf) if l.startswith('<<"REPLAY"'))
    if ncases == 0: raise vlib.ToolError("no retain cases emitted")
    replay_cases(c, pid, exe, cf, ncases)
    tr = os.path.join(wd, "retain_rand.ndjson"); tr2 = os.path.join(wd, "retain_rand2.ndjson")
    if run_bin(c, exe, ["record", str(vlib.seed()), str(1500 if thorough else 300), tr], "record") is not None:
        expand_again(tr, tr2)
        validate(c, pid, tr2)
    return ncases

def run(tier, replay=None):
    c = vlib.Check("C10", tier, "model_checking")
    if replay:
        items = vlib.ndjson_read(replay)
        exe = os.path.join(vlib.cargo_build(["retain"]), "retain")
        if items and "input" in items[0]:
            cf = os.path.join(c.wd, "cases.ndjson"); vlib.ndjson_write(cf, [i["input"] for i in items])
            replay_cases(c, "C10", exe, cf, len(items))
        else:
            validate(c, "C10", replay)
        return c.finish()
    n = legs(c, "C10", tier)
    # retain on registries of REAL types (type parameters, shared children, built-in shapes)
    from checks import texprcommon as T
    cases = T.corpus(c, tier == "thorough", False)
    tr = T.observe(c, cases, 70, 0, limit=None)
    rt = os.path.join(c.wd, "retain_real.ndjson")
    def wf(r):     # the premise of C10: a well-formed input
        from checks.regcommon import refs_of
        return all(e["id"] == i and all(0 <= x < len(r) for x in refs_of(e)) for i, e in enumerate(r))
    vlib.ndjson_write(rt, [e for e in vlib.ndjson_read(tr) if e.get("ev") == "Retain" and wf(e["old"])])
    validate(c, "C10", rt)
    c.cov["exhaustive"] = True
    c.cov["rule"] = "every graph on 3 (thorough: design check on 4) nodes with <=2 (thorough replay: <=3) ordered references per node as a concrete registry (every definition kind incl. empty arrays, marker types, parameters with and without a type on composite / sequence / tuple definitions) x every filter as a TOTAL predicate (subset of the ids x its answer for numbers that are no ids): model-checked (DoneOK = the statement, PlaceholderNeverRead, termination) and every behaviour replayed on the real retain comparing map and full result; plus random well-formed registries (<=12 entries, all kinds) x random filters, and retain applied again to its own output, validated by TLC running the Retain specification on the concrete entries"
    c.assumptions += ["input registries are well-formed (premise of the property)", "the filter is a pure predicate on ids", "small-scope hypothesis"]
    return c.finish()
