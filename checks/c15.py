"""C15 — produced metadata does not depend on the enabled crate features (specs/Features.tla)."""
import itertools, json, os
import vlib

FEATS = ["std", "serde", "decode", "bit-vec", "schema", "docs"]
QUICK = [[], ["std"], ["std", "serde", "decode", "bit-vec", "schema", "docs"], ["serde", "decode"], ["docs"], ["std", "docs", "bit-vec"], ["bit-vec"], ["schema"]]

CORPUS_DIR = None

def write_corpus(c, n):
    """a large corpus of built-in type expressions, enumerated by TLC (specs/MC_TypeExpr.tla), as Rust source"""
    global CORPUS_DIR
    import sys
    sys.path.insert(0, vlib.VERIF)
    from gen import texpr as G
    from checks import texprcommon as T
    cases = T.corpus(c, False, False)
    exprs, seen = [], set()
    for cs in cases:
        e = cs["e"]
        # BitVec belongs to the bit-vec sub-lattice only (fp has its own sub-corpus for it)
        if G.has(e, {"BitVec", "Lsb0", "Msb0", "Local"}) or G.key(e) in seen: continue      # (block-local user types cannot be named in a file-level corpus)
        seen.add(G.key(e)); exprs.append(e)
    step = max(1, len(exprs) // n)
    exprs = exprs[::step][:n]
    CORPUS_DIR = os.path.join(c.wd, "fpcorpus"); os.makedirs(CORPUS_DIR, exist_ok=True)
    with open(os.path.join(CORPUS_DIR, "gen_corpus.rs"), "w") as f:
        f.write("fn gen_corpus() -> Vec<MetaType> {\n    vec![\n")
        for e in exprs:
            f.write("        meta_type::<%s>(),\n" % G.rust(e))
        f.write("    ]\n}\n")
    nb = write_builder_corpus(c, 4 * n)
    return len(exprs), nb

def write_builder_corpus(c, n):
    """hand-written TypeInfo impls, one per complete legal call sequence of the builder automaton
    (specs/MC_TypeBuilders.tla, compile-time form): every docs setter at every position of every builder"""
    from checks import bldcommon as BC
    from gen import builders as B
    cases = [x for x in BC.explore(c, False, 3, "POS") if x["f"] == "M" and x["b"] in ("TB", "FS", "VS")]
    cases.sort(key=lambda x: json.dumps(x, sort_keys=True))
    step = max(1, len(cases) // n)
    cases = cases[::step][:n]
    L = ["mod genb {", "    use scale_info::{build::*, form::MetaForm, meta_type, MetaType, Path, Type, TypeInfo, TypeParameter};", "    pub struct W<const I: usize>;"]
    for i, cs in enumerate(cases):
        if cs["b"] == "TB": e = B.expr(cs)
        else:
            inner = B.expr(cs, upto=len(cs["calls"]) - 1)
            e = 'Type::builder().path(Path::new("W", "genb")).%s(%s)' % ("composite" if cs["b"] == "FS" else "variant", inner)
        L.append("    impl TypeInfo for W<%d> { type Identity = Self; fn type_info() -> Type { %s } }" % (i, e))
    L.append("    pub fn all() -> Vec<MetaType> { vec![%s] }" % ", ".join("meta_type::<W<%d>>()" % i for i in range(len(cases))))
    L.append("}")
    with open(os.path.join(CORPUS_DIR, "gen_corpus.rs"), "a") as f:
        f.write("\n".join(L) + "\nfn gen_builders() -> Vec<MetaType> { genb::all() }\n")
    return len(cases)

def build_and_run(cfgset):
    td = os.path.join(vlib.HARNESS, "target-fp" + ("-" + vlib.ALT if vlib.ALT else ""))
    cmd = ["cargo", "build", "--offline", "-q", "-p", "fp", "--no-default-features", "--target-dir", td]
    if vlib.ALT: cmd += ["--config", 'paths=["%s"]' % vlib.ALT_REPO]
    if cfgset: cmd += ["--features", ",".join(cfgset)]
    with vlib.Lock("cargo-fp"):
        env = {"CARGO_NET_OFFLINE": "true", "RUSTFLAGS": vlib.rustflags()}
        if CORPUS_DIR:
            env = {"CARGO_NET_OFFLINE": "true", "RUSTFLAGS": vlib.rustflags("--cfg fp_corpus"), "FP_CORPUS_DIR": CORPUS_DIR}
        p = vlib.run(cmd, cwd=vlib.HARNESS, env=env)
        if p.returncode != 0:
            return None, p.stderr[-3000:]
        r = vlib.run([os.path.join(td, "debug", "fp")])
    if r.returncode != 0:
        return None, "fingerprint binary failed: " + r.stderr[-1500:]
    ev = {"ev": "Fingerprint", "cfg": cfgset, "bvfull": "", "bvnodocs": ""}
    for l in r.stdout.splitlines():
        k, v = l.split(" ", 1); ev[k] = v
    return ev, None

def run(tier, replay=None):
    c = vlib.Check("C15", tier, "model_checking")
    wd = c.wd
    if replay:
        ok, info = vlib.tlc_trace("Features", "Trace_Features.cfg", wd, replay)
        if not ok: c.violation("replay", "fingerprints disagree", replay)
        return c.finish()
    thorough = tier == "thorough"
    ncorpus, nbuild = write_corpus(c, 600 if thorough else 250)
    c.cov["generated_corpus_expressions"] = ncorpus
    c.cov["generated_builder_sequences"] = nbuild
    # the configuration space is the specification's: TLC enumerates SUBSET Feats
    g = vlib.tlc("Features", "Gen_Features.cfg", wd, workers=1)
    allcfg = g.lines("CONFIGS")
    if not allcfg or len(allcfg[0]) != 64: raise vlib.ToolError("configuration enumeration failed")
    allcfg = sorted(sorted(x) for x in allcfg[0])
    for q in QUICK:
        if sorted(q) not in allcfg: raise vlib.ToolError("quick configuration %s is not in the lattice" % q)
    configs = allcfg if thorough else QUICK
    evs = []
    for cs in configs:
        ev, err = build_and_run(cs)
        if ev is None:
            # a feature combination that does not build: the property quantifies over combinations that build;
            # all 64 build on the pinned tree, so this is reported as a tool error, not a verdict
            raise vlib.ToolError("feature set %s does not build:\n%s" % (cs, err))
        evs.append(ev)
    tr = os.path.join(wd, "fingerprints.ndjson")
    vlib.ndjson_write(tr, evs)
    ok, info = vlib.tlc_trace("Features", "Trace_Features.cfg", wd, tr)
    r = info["res"]
    c.cov["states"] = max(r.distinct, 1); c.cov["transitions"] = max(r.generated, 1)
    c.cov["traces_validated_against_impl"] = len(evs); c.cov["evaluations"] = len(evs); c.cov["programs"] = len(evs)
    c.cov["configurations_built"] = [",".join(e["cfg"]) or "(none)" for e in evs]
    c.sample({"cfg": evs[0]["cfg"], "full_len": len(evs[0]["full"]) // 2, "nodocs_len": len(evs[0]["nodocs"]) // 2, "full_head": evs[0]["full"][:64]})
    if not ok:
        at = info["at"]; bad = evs[at - 1]
        if bad.get("secondfull") != bad.get("full") or bad.get("secondnodocs") != bad.get("nodocs"):
            rp = c.replay_file("fingerprints.ndjson", json.dumps(bad) + "\n")
            c.violation("features-self", "with features %s the same corpus registered a second time in a fresh registry of the same thread encodes differently from the first time (the other feature sets agree with themselves)" % bad["cfg"], rp)
        else:
            first = next(e for e in evs[:at - 1] if not agree(e, bad))
            rp = c.replay_file("fingerprints.ndjson", "\n".join(json.dumps(e) for e in (first, bad)) + "\n")
            c.violation("features", "metadata differs between feature sets %s and %s beyond documentation strings" % (first["cfg"], bad["cfg"]), rp)
    c.cov["exhaustive"] = thorough
    c.cov["rule"] = "one real build of the fingerprint binary (harness/fp: ~40 built-in and derived types, generic, recursive, documented, all capture_docs modes, replace_segment, skipped parameters, associated types, 20-tuple; the same documented struct / tuple struct / enum under every capture_docs mode; a TLC-enumerated corpus of built-in type expressions; one hand-written TypeInfo impl per complete legal call sequence of the builder automaton, i.e. every docs setter at every position; BitVec sub-corpus under bit-vec) per feature selection (%d selections), fingerprints = hex of encode(PortableRegistry) with and without docs, of three registries per process (the corpus, the corpus again, the corpus in the opposite order); the Features acceptor requires pairwise agreement" % len(evs)
    c.assumptions += ["the specification contributes the configuration space and the acceptance relation; the deciding evidence is one real build per configuration"]
    return c.finish()

def agree(a, b):
    da, db = "docs" in a["cfg"], "docs" in b["cfg"]
    if a["nodocs"] != b["nodocs"] or a.get("revnodocs") != b.get("revnodocs"): return False
    if da == db and a.get("revfull") != b.get("revfull"): return False
    if da == db and a["full"] != b["full"]: return False
    if "bit-vec" in a["cfg"] and "bit-vec" in b["cfg"]:
        if a["bvnodocs"] != b["bvnodocs"] or (da == db and a["bvfull"] != b["bvfull"]): return False
    return True
