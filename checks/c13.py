"""C13 — the derive accepts every supported generic definition with minimal bounds (specs/MC_Generic.tla)."""
import json, os, sys
import vlib, rsprog
sys.path.insert(0, vlib.VERIF)
from gen import generic as G

def cfg(wd, name, body):
    p = os.path.join(wd, name); open(p, "w").write(body); return p

def classify(g, diags):
    """key of the failing input class (for known_findings.json); judged on the diagnostics' own messages,
    not on the quoted source"""
    msgs = [d.get("message") or "" for d in diags]
    msg = " | ".join(msgs)
    if "proc-macro derive panicked" in msg: return "lifetime-outlives-bound-panics"
    if any(d.get("code") == "E0477" for d in diags) or "does not fulfill the required lifetime" in msg: return "custom-bounds-with-lifetime"
    assoc = [m for m in msgs if "as Cfg>::A: TypeInfo` is not satisfied" in m]
    if assoc and len(assoc) == len([m for m in msgs if "is not satisfied" in m]) and not g.get("predicted", True) \
            and any(f["t"] == "selfassoc" for f in g["fields"]):
        return "associated type only inside a self-referential field type"
    if any(("`NoInfo" in m or "`NC" in m or "`RC" in m or "`R:" in m or "`R`" in m) and "TypeInfo" in m for m in msgs):
        return "skipped-member-or-parameter-bound"
    return "generic"

def run(tier, replay=None):
    c = vlib.Check("C13", tier, "model_checking")
    wd = c.wd
    deps = rsprog.Deps((), pkg="min")      # the programs use nothing but scale-info itself
    if replay:
        ok, diags = deps.compile(replay, os.path.join(wd, "replay_bin"))
        if not ok: c.violation("replay", "does not compile: %s" % (diags[0]["message"] if diags else "?"), replay)
        return c.finish()
    thorough = tier == "thorough"
    r = vlib.tlc("MC_Generic", cfg(wd, "MC_Generic.cfg", "CONSTANTS TwoFields = %s Pairwise = %s\nSPECIFICATION Spec\nINVARIANT Sufficient Emit\nCHECK_DEADLOCK FALSE\n" % ("TRUE" if thorough else "FALSE", "TRUE" if thorough else "FALSE")), wd, workers=4, heap="8g", timeout=7200)
    if not r.ok: raise vlib.ToolError("MC_Generic failed: " + "\n".join(r.errors[:3]) + r.out[-1000:])
    gens = r.lines("GEN")
    c.cov["states"] = r.distinct; c.cov["transitions"] = r.generated
    gens.sort(key=lambda g: json.dumps(g, sort_keys=True))
    if thorough and len(gens) > 12000:
        import random
        random.Random(vlib.seed()).shuffle(gens); gens = gens[:12000]
    pd = os.path.join(wd, "gprogs"); os.makedirs(pd, exist_ok=True)
    jobs, texts = [], []
    for i, g in enumerate(gens):
        src = os.path.join(pd, "g%05d.rs" % i)
        prog, short = G.program(g, i)
        open(src, "w").write(prog); texts.append(short)
        jobs.append((src, src[:-3] + ".rmeta"))
    for name, prog in G.extra_programs():
        src = os.path.join(pd, "x_%s.rs" % name); open(src, "w").write(prog)
        gens.append({"np": 0, "fields": [], "mods": [name], "skip": [], "predicted": True}); texts.append(prog[len(G.PRE):])
        jobs.append((src, src[:-3] + ".rmeta"))
    import concurrent.futures as cf
    def one(j):
        return deps.compile(j[0], j[1], extra=["--emit=metadata"])
    with cf.ThreadPoolExecutor(max_workers=16) as ex:
        res = list(ex.map(one, jobs))
    nfail, byk, pred_mismatch = 0, {}, 0
    for (src, out), g, short, (ok, diags) in zip(jobs, gens, texts, res):
        if os.path.exists(out): os.unlink(out)
        if ok != g["predicted"]: pred_mismatch += 1
        if ok: continue
        nfail += 1
        k = classify(g, diags)
        byk.setdefault(k, []).append((src, short, diags))
    # a sample of programs is also linked and run (type_info() evaluated)
    ran = 0
    for (src, out), (ok, _) in list(zip(jobs, res))[:: max(1, len(jobs) // 24)]:
        if ok:
            exe = src[:-3]
            ok2, d2 = deps.compile(src, exe)
            if ok2:
                p = rsprog.run_prog(exe); vlib.discard(exe); ran += 1
                if p.returncode != 0:
                    rp = c.replay_file("generic_runtime.rs", open(src).read())
                    c.violation("runtime", "type_info() of an accepted generic definition panics: %s" % p.stderr[-300:], rp)
    c.cov["programs"] = len(jobs); c.cov["evaluations"] = len(jobs); c.cov["traces_validated_against_impl"] = len(jobs)
    c.cov["programs_run"] = ran; c.cov["disagreements_checked"] = pred_mismatch; c.cov["rejected_programs"] = nfail
    c.sample({"definition": texts[len(texts) // 3], "predicted": gens[len(gens) // 3]["predicted"]})
    for k, lst in sorted(byk.items()):
        src, short, diags = lst[0]
        rp = c.replay_file("generic_%s.rs" % k.replace(" ", "_")[:40], open(src).read())
        c.violation(k, "%d supported generic definitions are rejected (%s); first: %s -- %s" % (len(lst), k, short.replace("\n", " "), (diags[0]["message"] or "")[:200] if diags else ""), rp)
    c.cov["exhaustive"] = not thorough
    c.cov["rule"] = "every definition of the grammar of MC_Generic (1-2 parameters x 21 usage templates incl. associated types, self references, skipped members, x %s of the modifiers lifetime / two lifetimes with an outlives bound / const parameter / default / inline bound / where-clause / skip_type_params / bounds(..) / enum / tuple struct / attribute lists in reverse order / every parameter skipped incl. those in the encoding / crate = ::sinfo with the library linked under that name only), instantiated so that exactly the premise holds (skipped parameters and skipped member types have NO TypeInfo), each compiled on its own by rustc; a sample is also run" % ("pairs" if thorough else "each one")
    c.assumptions += ["the entailment model (Predicted) only classifies; rustc is the oracle", "generic #[codec(compact)] and generic mutual recursion between two derived types are outside the grammar (README / ui tests document bounds(..) as the remedy)"]
    return c.finish()
