"""C20 — ill-formed definitions are rejected at compile time, never mis-described."""
import json, os, sys
import vlib, rsprog
from checks import bldcommon as BC
sys.path.insert(0, vlib.VERIF)
from gen import builders as B

def builder_half(c, tier):
    # the typestate API has cfg twins (the docs setters): the frontier is compiled against both builds of the library
    for docs in (False, True):
        builder_half_for(c, tier, docs)

def builder_half_for(c, tier, docs):
    thorough = tier == "thorough"
    negs = BC.explore(c, docs, 4 if thorough else 3, "NEG")
    # the frontier of the automaton: one shortest legal prefix per (builder, form, typestate, disabled call, SET OF
    # METHODS called so far) - a setter that wrongly changes the typestate shows only after that setter was called
    best = {}
    for n in negs:
        k = json.dumps([n["b"], n["f"], n["arg"], n["ts"], n["bad"], sorted(set(x["m"] for x in n["calls"]))], sort_keys=True)
        if k not in best or len(json.dumps(n["calls"])) < len(json.dumps(best[k]["calls"])):
            best[k] = n
    cases = sorted(best.values(), key=lambda n: json.dumps(n, sort_keys=True))
    deps = rsprog.Deps(("docs",) if docs else ())
    pd = os.path.join(c.wd, "neg_docs" if docs else "neg"); os.makedirs(pd, exist_ok=True)
    jobs, meta = [], []
    neigh = {}
    for i, n in enumerate(cases):
        bad_e = B.expr(n, extra=n["bad"]); ok_e = B.expr(n)
        src = os.path.join(pd, "n%04d.rs" % i); open(src, "w").write(B.single_program(bad_e))
        jobs.append((src, src[:-3])); meta.append(("neg", n, bad_e))
        # the same ill-formed sequence with closures that return a FRESH builder instead of the one handed in, and a
        # finaliser called on a builder whose typestate is left to inference
        alts = []
        fe = B.expr_fresh(n, extra=n["bad"])
        if fe != bad_e: alts.append((fe, B.expr_fresh(n)))
        if n["b"] == "VB" and n["bad"]["m"] == "finalize":
            inferred = bad_e.replace("VariantBuilder::<MetaForm>::new(", "VariantBuilder::new(").replace("VariantBuilder::<PortableForm>::new(", "VariantBuilder::new(")
            F = "MetaForm" if n["f"] == "M" else "PortableForm"
            alts.append(("{ let r: scale_info::Variant<%s> = %s; r }" % (F, inferred), None))
        for k, (ae, aok) in enumerate(alts):
            s3 = os.path.join(pd, "n%04d_alt%d.rs" % (i, k)); open(s3, "w").write(B.single_program(ae))
            jobs.append((s3, s3[:-3])); meta.append(("neg", n, ae))
            if aok and aok not in neigh:
                s4 = os.path.join(pd, "k%04d.rs" % len(neigh)); open(s4, "w").write(B.single_program(aok)); neigh[aok] = s4
                jobs.append((s4, s4[:-3])); meta.append(("pos", n, aok))
        if ok_e not in neigh:
            s2 = os.path.join(pd, "k%04d.rs" % len(neigh)); open(s2, "w").write(B.single_program(ok_e)); neigh[ok_e] = s2
            jobs.append((s2, s2[:-3])); meta.append(("pos", n, ok_e))
    res = deps.compile_many(jobs)
    accepted, codes, broken_pos = [], {}, []
    for (src, exe), (kind, n, e), (ok, diags) in zip(jobs, meta, res):
        vlib.discard(exe)
        if kind == "pos" and not ok:
            broken_pos.append((e, diags)); continue
        if kind == "neg":
            if ok: accepted.append((n, e, src))
            else:
                for d in diags[:1]: codes[d["code"] or "?"] = codes.get(d["code"] or "?", 0) + 1
    c.add("programs", len(jobs)); c.add("evaluations", len(cases)); c.add("negative_builder_programs", len(cases)); c.add("traces_validated_against_impl", len(cases))
    c.cov["builder_rejection_codes" + ("_docs" if docs else "")] = codes
    c.sample({"must_not_compile": meta[0][2]})
    if accepted:
        n, e, src = accepted[0]
        rp = c.replay_file("ill_formed_accepted.rs", open(src).read())
        c.violation("builder-accepts", "%d call sequences that leave the typestate automaton compile (docs feature %s); first: %s" % (len(accepted), "on" if docs else "off", e), rp)
    elif broken_pos:      # (a violation found above is reported first; a legal sequence that is rejected is C17's subject)
        e, diags = broken_pos[0]
        raise vlib.ToolError("the legal neighbour of a negative case does not compile (renderer problem, or the library rejects a legal sequence: C17 judges that): %s\n%s" % (e, diags[0]["rendered"][:600] if diags else ""))

def run(tier, replay=None):
    c = vlib.Check("C20", tier, "model_checking")
    if replay:
        deps = rsprog.Deps(())
        ok, diags = deps.compile(replay, os.path.join(c.wd, "replay_bin"))
        if ok:
            c.violation("replay", "the program compiles", replay)
        return c.finish()
    builder_half(c, tier)
    try:
        from checks import derivecommon
    except ImportError:
        derivecommon = None
    if derivecommon:
        derivecommon.c20_derive_half(c, tier)
    c.cov["exhaustive"] = True
    c.cov["rule"] = "builders: the complete frontier of the typestate automaton (every reachable typestate of every builder in both forms x every call of the alphabet that is not enabled there: missing path, missing index, missing type, named/unnamed mix, field on unit, repeated name/ty/index/path), each after every set of methods that can precede it, as a stand-alone program that must fail to compile while its legal prefix compiles, against the library built without and with the docs feature (the docs setters are cfg twins); derive: see derive_* keys"
    c.assumptions += ["rustc is the oracle for 'does not compile'; the legal-neighbour rule guards against renderer artefacts",
                      "the Default-impl escape hatch (TypeBuilder::<_, PathAssigned>::default()) is outside the negative grammar: it panics before yielding a value (DESIGN 5/C20)"]
    return c.finish()
