"""C12 — runtime builder and interner behave as an append-only duplicate-free table."""
import json, os
import vlib

def run(tier, replay=None):
    c = vlib.Check("C12", tier, "model_checking")
    wd = c.wd
    bindir = vlib.cargo_build(["interner"])
    exe = os.path.join(bindir, "interner")
    if replay:
        # a replay file is a list of transitions (spec->impl) or a trace segment (impl->spec)
        items = vlib.ndjson_read(replay)
        if items and "trans" in items[0]:
            items = [i["trans"] for i in items]
        if items and "from" in items[0]:
            return replay_transitions(c, exe, items)
        return validate_trace(c, replay, [0])
    thorough = tier == "thorough"
    # 1. design check: table invariants, append-only, next_type_id announcement (complete state graph)
    cfg = "MC_Interner_T.cfg" if thorough else "MC_Interner.cfg"
    r = vlib.tlc_design("MC_Interner", cfg, wd, workers=4, args=["-coverage", "1"])
    c.cov["states"] = r.distinct
    c.cov["design_states_generated"] = r.generated
    # 2. spec -> impl: every transition of the complete graph executed on real code
    g = vlib.tlc("MC_Interner", "Gen_Interner_T.cfg" if thorough else "Gen_Interner.cfg", wd, workers=1)
    trans = g.lines("TRANS")
    if not trans or len(trans) + 1 != g.generated:
        raise vlib.ToolError("transition emission incomplete: %d lines vs %d generated" % (len(trans), g.generated))
    c.cov["transitions"] = len(trans)
    rc = replay_transitions(c, exe, trans, finish=False)
    # 3. impl -> spec: seeded random walks validated against the specification
    tr = os.path.join(wd, "walks.ndjson")
    walks, length = (96, 400) if thorough else (24, 200)
    p = vlib.run([exe, "record", str(vlib.seed()), str(walks), str(length), tr], check=True)
    validate_trace(c, tr, None, finish=False)
    c.cov["traces_validated_against_impl"] = c.cov.get("traces_validated_against_impl", 0) + walks
    c.cov["exhaustive"] = True
    c.cov["rule"] = "complete state graph of Interner over a 4/5-value alphabet; every transition replayed on Interner<String>, an Interner whose Ord is unrelated to insertion order, Interner<Type<PortableForm>> and PortableRegistryBuilder; Type-valued elements under eleven bindings (one body per definition kind; near misses that differ from one rich enum definition in exactly one leaf; the kinds shifted so that five values reach all of them; a cross product of a few leaves under one path; definitions with several members that share a prefix; six windows of ANONYMOUS definitions - no path, parameters or docs - that differ in one component of the definition, for every definition kind); plus seeded random walks over up to 96 values validated by TLC"
    c.assumptions += ["the implementation has no state beyond elements()/finish() (what the harness projects)",
                      "Symbols for out-of-range resolve probes are taken from a larger donor interner of the same element type"]
    return c.finish()

def replay_transitions(c, exe, trans, finish=True):
    wd = c.wd
    tf = os.path.join(wd, "transitions.ndjson"); vf = os.path.join(wd, "verdicts.ndjson")
    vlib.ndjson_write(tf, trans)
    p = vlib.run([exe, "replay", tf, vf])
    if p.returncode != 0:
        raise vlib.ToolError("interner replay crashed: " + p.stderr[-2000:])
    s = json.loads(p.stdout.strip().splitlines()[-1])
    c.add("evaluations", s["executed"])
    c.add("impl_tests_from_transitions", s["executed"])
    for t in trans[:2]: c.sample({"transition": t})
    bad = vlib.ndjson_read(vf)
    if bad:
        rp = c.replay_file("transitions_mismatch.ndjson", "\n".join(json.dumps(b) for b in bad[:50]) + "\n")
        c.violation("transition", "real %s disagrees with the specification on %d transitions, first: %s" % (bad[0]["kind"], len(bad), json.dumps(bad[0])[:400]), rp)
    return c.finish() if finish else 0

def validate_trace(c, tr, _unused, finish=True):
    ok, info = vlib.tlc_trace("Trace_Interner", "Trace_Interner.cfg", c.wd, tr)
    evs = vlib.ndjson_read(tr)
    c.add("trace_events", len(evs))
    c.sample({"trace_head": evs[:4]})
    if not ok:
        at = info["at"]
        # cut the enclosing reset..reset segment
        s = at - 1
        while s > 0 and evs[s].get("ev") != "reset": s -= 1
        e = at
        while e < len(evs) and evs[e].get("ev") != "reset": e += 1
        rp = c.replay_file("trace_segment.ndjson", "\n".join(json.dumps(x) for x in evs[s:e]) + "\n")
        c.violation("trace", "recorded call #%d is not a step of the specification: %s" % (at, json.dumps(evs[at-1])[:300]), rp)
    return c.finish() if finish else 0
