"""C09 — derived metadata mirrors the source declaration (specs/Derive.tla Meta)."""
import vlib
from checks import derivecommon as DC

def run(tier, replay=None):
    c = vlib.Check("C09", tier, "model_checking")
    if replay:
        rej = DC.validate(c, "C09", replay)
        if rej: DC.report(c, "C09", rej)
        return c.finish()
    decls = DC.declarations(c, tier, with_encoded_as=True, for_codec=False)
    for docs in (False, True):
        tag = "_docs" if docs else "_nodocs"
        tr, failed = DC.observe(c, decls, False, 0, features=(("docs",) if docs else ()), tag=tag)
        if failed:
            src, g, diags = failed[0]
            macro = [d for d in diags if d.get("code") is None]      # an error raised by the derive itself carries no rustc code
            if macro:
                rp = c.replay_file("derive_rejects_supported_declaration%s.rs" % tag, open(src).read())
                c.violation("derive-rejects", "the derive itself rejects a declaration of the supported grammar (docs=%s): %s" % (docs, macro[0]["message"][:300]), rp)
                continue
            # the derive EMITTED an implementation that rustc rejects, for a declaration of the supported grammar (every
            # program of this grammar compiles on a tree where the property holds): nothing is reported for that type
            rp = c.replay_file("derive_emits_code_that_does_not_compile%s.rs" % tag, open(src).read())
            c.violation("derive-emits-invalid", "the implementation the derive emits for a declaration of the supported grammar does not compile (docs=%s): %s" % (docs, (diags[0]["message"] or "")[:300] if diags else "?"), rp)
            continue
        DC.validate_all(c, "C09", tr, tag)
    c.cov["exhaustive"] = False
    c.cov["rule"] = "declarations = TLC-enumerated plans (4 shapes x every set of <=%d of the grammar features of specs/MC_Derive.tla: generics, skipped parameters, lifetimes, docs with 0/1/3 leading spaces, rename, codec skip/compact, PhantomData, self reference, nested built-ins, raw identifiers, capture_docs always/never/default in mixed case, module nesting, replace_segment incl. overlapping keys and the type's own identifier, skipped variants, codec(index), discriminants, const generics, doc attributes in both forms, attributes combined and split in both orders, encoded_as over path and non-path types, types through macro_rules fragments, a parameter instantiated with PhantomData, raw-identifier modules and type names, #[scale_info(crate = <a re-export path>)], the kinds of container attributes and the attributes of a member in the opposite order / before the doc lines, discriminants written as expressions) + seeded random declarations; each compiled with the docs feature off and on; the reported Type compared by TLC with Derive.Meta (path, parameters Some/None in the compile-time AND the portable form, member order, names, type identities via TypeId, whitespace-free type names with 'static lifetimes, variant names, docs)" % (4 if tier == "thorough" else 2)
    c.assumptions += ["type identities are compared through TypeIds of meta_type::<DeclaredType>() computed by the generated program", "variant indices are judged by C03"]
    return c.finish()
