"""X05 — extension check, NOT one of the listed properties and not in MANIFEST.json: the TLA+ proof system discharges
the safety of the interning discipline (specs/proofs/RegHooksProof.tla restates specs/RegHooks.tla) for ANY set of
identities, any nesting depth and any number of calls: the table of first occurrences is duplicate-free and every
open call's id is the position of its identity in the table. TLC checks the same for 3 identities / nesting <= 4
(MC_RegHooks); X04 binds the discipline to recorded executions of the library."""
import os, re, shutil, subprocess
import vlib

def run(tier, replay=None):
    c = vlib.Check("X05", tier, "proof")
    d = os.path.join(vlib.SPECS, "proofs")
    shutil.rmtree(os.path.join(d, ".tlacache"), ignore_errors=True)      # prove again, no cached fingerprints
    try:
        p = subprocess.run(["tlapm", "--threads", "8", "--cleanfp", "RegHooksProof.tla"], cwd=d, stdout=subprocess.PIPE, stderr=subprocess.STDOUT, text=True, timeout=1800)
    except subprocess.TimeoutExpired:
        raise vlib.ToolError("tlapm did not finish within 30 minutes")
    m = re.search(r"All (\d+) obligations proved", p.stdout)
    if not m:
        f = re.search(r"(\d+)/(\d+) obligations failed", p.stdout)
        if f:
            rp = c.replay_file("tlapm_output.txt", p.stdout[-6000:])
            c.violation("proof", "%s of %s proof obligations of RegHooksProof.tla are not discharged" % (f.group(1), f.group(2)), rp)
            return c.finish()
        raise vlib.ToolError("tlapm failed: " + p.stdout[-2000:])
    c.cov["proof_obligations_discharged"] = int(m.group(1)); c.cov["evaluations"] = int(m.group(1))
    c.cov["obligations"] = int(m.group(1)); c.cov["discharged"] = int(m.group(1))
    c.cov["checker_cmd"] = "cd specs/proofs && tlapm --threads 8 --cleanfp RegHooksProof.tla"
    c.cov["trusted_base"] = ["tlapm 1.6.0-pre and its back ends (SMT/z3, Zenon, Isabelle, PTL/ls4)", "the TLA+ module RegHooksProof.tla as a faithful abstraction of src/interner.rs (bound to the code by X04, not by this proof)"]
    c.sample({"theorems": ["Spec => []Inv", "StableStep"]})
    c.cov["rule"] = "tlapm (SMT / Zenon / Isabelle back ends, PTL for the temporal step): Spec => []Inv (duplicate-free table, open calls point at their identity) for an arbitrary identity set"
    shutil.rmtree(os.path.join(d, ".tlacache"), ignore_errors=True)
    return c.finish()
