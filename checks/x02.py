"""X02 — extension check, NOT one of the listed properties and not in MANIFEST.json: Registry => Builder.
Entries of registries produced by Registry (random universes with cycles, aliases, identities with identical
definitions) are fed in order to PortableRegistryBuilder; TLC evaluates Trace_Registry!RebuildOK on each event:
the builder interns by value (first occurrences, position labels), and the round trip is the identity exactly for
registries without two equal entry bodies."""
import os
import vlib
from checks import regcommon as R

def run(tier, replay=None):
    c = vlib.Check("X02", tier, "model_checking")
    exe = os.path.join(vlib.cargo_build(["reg"]), "reg")
    tr = replay or os.path.join(c.wd, "rand.ndjson")
    if not replay and R.run_reg(c, exe, ["record", str(vlib.seed()), str(600 if tier == "thorough" else 150), "1", tr], "record") is None:
        return c.finish()
    R.validate(c, "X02", tr, "rand")
    c.cov.setdefault("states", max(1, c.cov.get("trace_events", 1))); c.cov.setdefault("transitions", max(1, c.cov.get("trace_events", 1)))      # one TLC state per validated event
    c.cov["rule"] = "random universes (<=12 identities, all definition kinds, cycles, aliases, identities with identical definitions) registered through random histories; the produced registry rebuilt through PortableRegistryBuilder; RebuildOK evaluated by TLC on every Rebuild event"
    return c.finish()
