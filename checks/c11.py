"""C11 — see regcommon.py and DESIGN.md section 5."""
from checks import regcommon

def run(tier, replay=None):
    return regcommon.run("C11", tier, replay)
