"""C14 — decoding untrusted registry bytes or JSON never panics and is canonical (specs/Wire.tla fault machine, specs/JsonForm.tla)."""
import json, os
import vlib
from checks import wirecommon as W

def judge_file(c, x, cases, n, what):
    mf = os.path.join(c.wd, "fault_verdicts_%s.ndjson" % what); tr = os.path.join(c.wd, "untrusted_%s.ndjson" % what)
    p = vlib.run([x, "fault", cases, mf, tr])
    if p.returncode in (-9, 137, -15) and "ALLOC-CAP" not in p.stderr:
        raise vlib.ToolError("wire fault was killed (exit %d), not a verdict" % p.returncode)
    if p.returncode != 0:
        last = [l for l in p.stderr.splitlines() if l.startswith("@")]
        rp = c.replay_file("abort_%s.txt" % what, "case index " + (last[-1] if last else "?") + " of " + cases + "\n" + p.stderr[-1500:])
        c.violation("abort", "decoding aborted the process (exit %d): not a panic that can be caught, e.g. allocation failure or stack overflow" % p.returncode, rp)
        return
    s = json.loads(p.stdout.strip().splitlines()[-1])
    if s["executed"] != n: raise vlib.ToolError("fault replay incomplete")
    c.add("evaluations", n); c.add("faulted_inputs_decoded_ok", s["decoded_ok"]); c.add("disagreements_checked", s["model_disagreements"])
    bad = [m for m in vlib.ndjson_read(mf) if m["mismatch"][0]["aspect"] == "c14"]
    if bad:
        rp = c.replay_file("fault_cases_%s.ndjson" % what, "\n".join(json.dumps(b) for b in bad[:30]) + "\n")
        c.violation("fault", "%d hostile inputs: %s; first bytes %s" % (len(bad), bad[0]["mismatch"][0]["msg"][:200], bad[0]["input"]["bytes"][:32]), rp)
    # the successful decodes, validated by the specification: re-encoding (independent and the library's) = consumed prefix
    if os.path.getsize(tr) > 0:
        ok, info = vlib.tlc_trace("Trace_Wire", W.trace_cfg(c.wd, "C14"), c.wd, tr, heap="6g")
        evs = vlib.ndjson_read(tr)
        c.add("traces_validated_against_impl", len(evs))
        if not ok:
            b = evs[info["at"] - 1]
            rp = c.replay_file("noncanonical_%s.ndjson" % what, json.dumps({"input": {"bytes": b["bytes"]}, "event": b}) + "\n")
            c.violation("noncanonical", "a successfully decoded registry does not re-encode to the consumed bytes: %s" % b["bytes"][:40], rp)

def run(tier, replay=None):
    c = vlib.Check("C14", tier, "fault_enumeration")
    wd = c.wd
    x = W.exe()
    thorough = tier == "thorough"
    if replay:
        items = vlib.ndjson_read(replay)
        if items and "json" in items[0].get("input", {}):
            from checks import jsoncommon
            jsoncommon.replay_untrusted(c, items)
        else:
            cf = os.path.join(wd, "cases.ndjson"); vlib.ndjson_write(cf, [i["input"] for i in items if "input" in i])
            judge_file(c, x, cf, len(items), "replay")
        return c.finish()
    # 1. fault machine: every single fault of four base encodings (all kinds), model-checked for format canonicity
    k, stride = (2, 24) if thorough else (1, 1)
    r = vlib.tlc("MC_Wire", W.cfg(wd, "MC_Wire_fault.cfg", 'CONSTANTS Mode = "fault" MaxFaults = %d Stride = %d BigLens = {}\nSPECIFICATION Spec\nINVARIANT FormatCanonical EmitFault\nVIEW View\nCHECK_DEADLOCK FALSE\n' % (k, stride)), wd, workers=8, heap="10g", timeout=3 * 3600)
    if not r.ok: raise vlib.ToolError("fault machine design check failed: " + "\n".join(r.errors[:3]))
    c.cov["states"] = r.distinct; c.cov["transitions"] = r.generated
    out = os.path.join(wd, "MC_Wire_fault.cfg.out")
    n = W.count_cases(out)
    if n != r.distinct: raise vlib.ToolError("fault case emission incomplete: %d vs %d" % (n, r.distinct))
    judge_file(c, x, out, n, "enum")
    with open(out) as f:
        for l in f:
            if l.startswith('<<"CASE"') and '"truncate' in l.replace('\\', ''):
                c.sample({"fault_case": l[:300]}); break
    # 2. seeded fuzz: arbitrary strings over a boundary alphabet and 1-3 mutations of random corpus encodings
    ff = os.path.join(wd, "fuzz_violations.ndjson")
    cnt = 400000 if thorough else 60000
    p = vlib.run([x, "fuzz", str(vlib.seed()), str(cnt), ff])
    if p.returncode in (-9, 137, -15) and "ALLOC-CAP" not in p.stderr:
        raise vlib.ToolError("wire fuzz was killed (exit %d), not a verdict" % p.returncode)
    if p.returncode != 0:
        last = [l for l in p.stderr.splitlines() if l.startswith("@")]
        rp = c.replay_file("abort_fuzz.txt", (last[-1] if last else "?") + "\n" + p.stderr[-1500:])
        c.violation("abort", "decoding aborted the process during fuzzing (exit %d)" % p.returncode, rp)
    else:
        s = json.loads(p.stdout.strip().splitlines()[-1])
        c.add("evaluations", s["executed"]); c.add("fuzz_inputs", s["executed"]); c.add("fuzz_decoded_ok", s["decoded_ok"])
        bad = vlib.ndjson_read(ff)
        if bad:
            rp = c.replay_file("fuzz_cases.ndjson", "\n".join(json.dumps(b) for b in bad[:30]) + "\n")
            c.violation("fuzz", "%d fuzzed inputs: %s" % (len(bad), bad[0]["mismatch"][0]["msg"][:200]), rp)
    # 3. JSON half
    try:
        from checks import jsoncommon
    except ImportError:
        jsoncommon = None
    if jsoncommon:
        jsoncommon.untrusted_leg(c, tier)
    c.cov["distinct_nontrivial"] = c.cov.get("states", 0) + c.cov.get("json_fault_cases", 0)
    c.cov["exhaustive"] = not thorough
    c.cov["rule"] = ("SCALE: every truncation, bit flip, byte set over 13 boundary values, insertion, deletion and hostile length-prefix substitution at every position of 4 base encodings covering all definition kinds (depth %d%s), each distinct faulted byte string decoded by the real code under catch_unwind and a counting allocator (bound 256KiB+256*len), resolve probed at len-1/len/len+1/u32::MAX, successful decodes re-validated by TLC (independent re-encoding = consumed prefix); plus seeded mutation fuzzing. JSON: structural faults of serialised registries (see json_* keys). A case is non-trivial when its bytes differ from every other case (TLC VIEW on the byte string)." % (k, ", positions strided by %d at depth 2" % stride if k > 1 else ""))
    c.assumptions += ["memory proportionality is asserted against a fixed linear bound measured by a counting allocator, not modelled", "aborts (allocation failure) are detected from the child process exit status"]
    return c.finish()
