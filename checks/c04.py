"""C04 — built-in TypeInfo impls describe the real SCALE encoding of std types."""
import vlib
from checks import texprcommon as T

def run(tier, replay=None):
    c = vlib.Check("C04", tier, "model_checking")
    if replay:
        T.validate(c, "C04", replay); return c.finish()
    thorough = tier == "thorough"
    cases = T.corpus(c, thorough, thorough)
    tr = T.observe(c, cases, 60, 6 if thorough else 4, limit=None)
    T.validate(c, "C04", tr)
    c.cov["exhaustive"] = False
    c.cov["rule"] = "TLC-enumerated built-in type expressions; for each expression with a codec impl, random values (boundary-biased) are encoded by the real codec and TLC decodes the bytes from the REAL registry description alone (ScaleValue.Dec), requiring exact consumption and equality with a hand-written value tree; every expression's type_info() (incl. char, 19/20-tuples, Lsb0/Msb0) is compared with the documented shape BuiltinInfo"
    c.assumptions += ["the value oracle harness/vh/src/val.rs is written from the language/SCALE documentation, not from TypeInfo"]
    return c.finish()
