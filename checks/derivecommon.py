"""Shared driver for derive programs (C03, C09, C13, C17-derive, C20-derive): specs/Derive.tla, MC_Derive.tla, Trace_Derive.tla."""
import json, os, random, sys
import vlib, rsprog
sys.path.insert(0, vlib.VERIF)
from gen import derive as D

def cfg(wd, name, body):
    p = os.path.join(wd, name); open(p, "w").write(body); return p

def plans(c, maxf):
    r = vlib.tlc("MC_Derive", cfg(c.wd, "MC_Derive_plans.cfg", 'CONSTANTS MaxFeatures = %d Mode = "plans"\nSPECIFICATION Spec\nINVARIANT EmitPlan\nCHECK_DEADLOCK FALSE\n' % maxf), c.wd, workers=1, heap="6g")
    if not r.ok: raise vlib.ToolError("MC_Derive failed: " + "\n".join(r.errors[:3]))
    ps = r.lines("PLAN")
    if len(ps) != r.distinct: raise vlib.ToolError("plan emission incomplete")
    c.add("states", r.distinct); c.add("transitions", r.generated)
    ps.sort(key=lambda p: (p["shape"], sorted(p["feats"])))
    return ps

def declarations(c, tier, with_encoded_as=True, nrand=None, for_codec=True):
    thorough = tier == "thorough"
    ps = plans(c, 4 if thorough else 2)
    decls = []
    for p in ps:
        if not with_encoded_as and "encoded_as" in p["feats"]: continue
        decls.append(D.from_plan(p["shape"], p["feats"], len(decls), for_codec))
    r = random.Random(vlib.seed())
    for _ in range(nrand if nrand is not None else (1500 if thorough else 250)):
        decls.append(D.rand_decl(r, len(decls), for_codec))
    decls += D.newtype_decls(len(decls))
    for i, d in enumerate(decls): d["id"] = i
    return decls

def observe(c, decls, with_values, nvals, features=(), per=40, tag=""):
    wd = c.wd
    deps = rsprog.Deps(features)
    pd = os.path.join(wd, "dprogs" + tag); os.makedirs(pd, exist_ok=True)
    jobs, groups = [], []
    for k in range(0, len(decls), per):
        g = decls[k:k + per]
        src = os.path.join(pd, "p%03d.rs" % (k // per))
        open(src, "w").write(D.program(g, vlib.seed() * 7919 + k, with_values, nvals))
        jobs.append((src, src[:-3])); groups.append(g)
    res = deps.compile_many(jobs)
    tr = os.path.join(wd, "derive_trace%s.ndjson" % tag)
    failed = []
    with open(tr, "w") as f:
        for (src, exe), g, (ok, diags) in zip(jobs, groups, res):
            if not ok:
                failed.append((src, g, diags)); continue
            p = rsprog.run_prog(exe)
            vlib.discard(exe)
            if p.returncode != 0:
                # producing the metadata of derived types of the supported grammar PANICS (type_info(), registration or
                # encoding): that is an observation about the library, not a tool problem
                rp = c.replay_file("derived_metadata_panics%s.rs" % tag, open(src).read())
                c.violation("panic", "a program that derives TypeInfo for declarations of the supported grammar panics while producing their metadata: %s" % (p.stderr.strip().splitlines() or ["?"])[0][:300], rp)
                continue
            f.write(json.dumps({"ev": "Decls", "decls": g}) + "\n")
            f.write(p.stdout)
    c.add("programs", len(jobs)); c.add("declarations", len(decls)); c.add("evaluations", len(decls))
    c.sample({"declaration": D.decl_src(decls[min(7, len(decls) - 1)], with_values)[:500]})
    return tr, failed

def validate(c, pid, tr, tag=""):
    tc = cfg(c.wd, "Trace_Derive_%s.cfg" % pid, 'CONSTANTS\n Check = "%s"\nSPECIFICATION Spec\nCONSTRAINT Track\nPOSTCONDITION Accepted\nVIEW View\nCHECK_DEADLOCK FALSE\n' % pid)
    ok, info = vlib.tlc_trace("Trace_Derive", tc, c.wd, tr, heap="8g")
    n = sum(1 for _ in open(tr))
    c.add("trace_events", n); c.add("traces_validated_against_impl", n)
    if ok: return None
    evs = vlib.ndjson_read(tr)
    at = info["at"]; bad = evs[at - 1]
    s = at - 1
    while s > 0 and evs[s].get("ev") != "Decls": s -= 1
    d = next(x for x in evs[s]["decls"] if x["id"] == bad["id"])
    ty = next((x for x in reversed(evs[s:at]) if x.get("ev") == "Type" and x["id"] == bad["id"]), None)
    seg = [{"ev": "Decls", "decls": [d]}] + ([ty] if ty and bad.get("ev") == "Value" else []) + [bad]
    import re
    m = re.search(r'<<"EXPECTED", "(.*)">>', info["out"])
    exp = json.loads(json.loads('"' + m.group(1) + '"')) if m else None
    return {"at": at, "bad": bad, "decl": d, "segment": seg, "out": info["out"], "expected": exp}

def report(c, pid, rej, tag=""):
    d = rej["decl"]; bad = rej["bad"]
    rp = c.replay_file("derive_%s%s_segment.ndjson" % (pid, tag), "\n".join(json.dumps(x) for x in rej["segment"]) + "\n")
    open(rp + ".rs", "w").write(D.decl_src(d, True))
    key = "encoded_as" if (pid == "C03" and any(f.get("encoded_as") and not f["skip"] for g in ([d["fields"]] + [v["fields"] for v in d["variants"]]) for f in g)) else "derive"
    c.violation(key, "event #%d (%s) for declaration `%s` rejected by acceptor %s%s: %s" % (
        rej["at"], bad.get("ev"), D.decl_src(d, False).replace("\n", " ")[:260], pid, tag, json.dumps({k: v for k, v in bad.items() if k in ("obs", "bytes", "tree")})[:600] + (" EXPECTED " + json.dumps(rej["expected"])[:600] if rej.get("expected") else "")), rp)

def validate_all(c, pid, tr, tag="", max_findings=3):
    """validate; on rejection report and continue after the offending declaration so the rest is still checked"""
    for _ in range(max_findings):
        rej = validate(c, pid, tr, tag)
        if rej is None: return
        report(c, pid, rej, tag)
        # drop every event of the offending declaration and re-validate the remainder
        evs = vlib.ndjson_read(tr); bid = rej["bad"]["id"]
        at = rej["at"]; s = at - 1
        while s > 0 and evs[s].get("ev") != "Decls": s -= 1
        e = at
        while e < len(evs) and evs[e].get("ev") != "Decls": e += 1
        kept = evs[:s + 1] + [x for x in evs[s + 1:e] if x.get("id") != bid] + evs[e:]
        vlib.ndjson_write(tr, kept)

# ------------------------------------------------------------------------------------------------
# C20, derive half: container attribute automaton + unions

ATTR_PRE = """#![allow(dead_code, unused)]
use scale_info::TypeInfo; use core::marker::PhantomData;
fn ok<T: TypeInfo + 'static>() { let _ = T::type_info(); }
pub trait Cfg: TypeInfo + 'static { type A: TypeInfo + 'static; }      // T gets TypeInfo from the supertrait
impl Cfg for u8 { type A = u16; }
"""
OTHER = {"assoc": "T::A", "qassoc": "<T as Cfg>::A", "vec": "Vec<T>", "arr": "[T; 2]", "lifetime": None}      # lifetime: a predicate that bounds no type at all

def item_src(it):
    k = it["k"]
    if k == "bounds":
        preds = ["'static: 'static" if OTHER[o] is None else "%s: ::scale_info::TypeInfo + 'static" % OTHER[o] for o in it.get("other", [])]
        return "bounds(%s)" % ", ".join(preds + ["%s: ::scale_info::TypeInfo + 'static" % p for p in it["ps"]])
    if k == "skip_type_params": return "skip_type_params(%s)" % ", ".join("T" if p == "TT" else p for p in it["ps"])
    if k == "capture_docs": return 'capture_docs = "%s"' % it["val"]
    if k == "crate": return "crate = ::scale_info"
    if k == "replace_segment": return 'replace_segment("a", "b")'
    if k == "unknown": return "frobnicate"
    if k in ("bare", "namevalue"): return None      # not an item of a list: an attribute of its own (see attr_program)
    raise ValueError(k)

def attr_program(items, split):
    """split: one #[scale_info(..)] per item, or all items in one attribute"""
    OWN = {"bare": "#[scale_info]\n", "namevalue": '#[scale_info = "skip_type_params(T)"]\n'}
    if split:
        attrs = "".join(OWN[i["k"]] if i["k"] in OWN else "#[scale_info(%s)]\n" % item_src(i) for i in items)
    else:      # the list items in one attribute, the attributes that are no lists around it in their positions
        srcs = [item_src(i) for i in items if i["k"] not in OWN]
        lst = "#[scale_info(%s)]\n" % ", ".join(srcs) if srcs else ""
        first_own = next((j for j, i in enumerate(items) if i["k"] in OWN), None)
        own = "".join(OWN[i["k"]] for i in items if i["k"] in OWN)
        attrs = (own + lst) if first_own == 0 else (lst + own)
    return ATTR_PRE + "#[derive(TypeInfo)]\n" + attrs + "struct S<T: Cfg, U> { m: PhantomData<T>, n: PhantomData<U>, k: u8 }\nfn main() { ok::<S<u8, u16>>(); }\n"

def c20_derive_half(c, tier):
    wd = c.wd
    r = vlib.tlc("MC_Derive", cfg(wd, "MC_Derive_attrs.cfg", 'CONSTANTS MaxFeatures = 0 Mode = "attrs"\nSPECIFICATION Spec\nINVARIANT EmitAttr\nCHECK_DEADLOCK FALSE\n'), wd, workers=1, heap="6g")
    if not r.ok: raise vlib.ToolError("MC_Derive attrs failed: " + "\n".join(r.errors[:3]))
    seqs = r.lines("ATTR")
    if len(seqs) != r.distinct: raise vlib.ToolError("attribute sequence emission incomplete")
    c.add("states", r.distinct); c.add("transitions", r.generated)
    seqs.sort(key=lambda s: json.dumps(s, sort_keys=True))
    deps = rsprog.Deps(())
    pd = os.path.join(wd, "attrs"); os.makedirs(pd, exist_ok=True)
    jobs, meta = [], []
    for i, s in enumerate(seqs):
        for split in ((True, False) if len(s["items"]) > 1 else (True,)):
            src = os.path.join(pd, "a%04d_%d.rs" % (i, split)); open(src, "w").write(attr_program(s["items"], split))
            jobs.append((src, src[:-3] + ".rmeta")); meta.append(s)
    # unions, and their legal neighbour
    for name, body in (("union", "union U { a: u8, b: u16 }"), ("union_generic", "union U<T: Copy> { a: T, b: u16 }")):
        src = os.path.join(pd, name + ".rs"); open(src, "w").write(ATTR_PRE + "#[derive(TypeInfo)]\n" + body + "\nfn main() {}\n")
        jobs.append((src, src[:-3] + ".rmeta")); meta.append({"items": [{"k": name}], "accept": False})
    src = os.path.join(pd, "union_neighbour.rs"); open(src, "w").write(ATTR_PRE + "#[derive(TypeInfo)]\nstruct U { a: u8, b: u16 }\nfn main() { ok::<U>(); }\n")
    jobs.append((src, src[:-3] + ".rmeta")); meta.append({"items": [{"k": "struct"}], "accept": True})
    import concurrent.futures as cf
    with cf.ThreadPoolExecutor(max_workers=16) as ex:
        res = list(ex.map(lambda j: deps.compile(j[0], j[1], extra=["--emit=metadata"]), jobs))
    accepted_bad, rejected_good, by_derive = [], [], 0
    for (src, out), s, (ok, diags) in zip(jobs, meta, res):
        if os.path.exists(out): os.unlink(out)
        if s["accept"] and not ok: rejected_good.append((src, s, diags))
        if not s["accept"]:
            if ok: accepted_bad.append((src, s))
            elif any(d.get("code") is None for d in diags): by_derive += 1      # an error reported by the macro itself has no rustc code
            else: accepted_bad.append((src, s))   # only downstream rustc errors: the derive emitted an implementation instead of reporting
    nneg = sum(1 for s in meta if not s["accept"])
    c.add("programs", len(jobs)); c.add("evaluations", nneg); c.add("negative_derive_programs", nneg); c.add("traces_validated_against_impl", len(jobs))
    c.cov["derive_negatives_rejected_by_macro_error"] = by_derive
    c.sample({"must_not_compile": open(next(j[0] for j, s in zip(jobs, meta) if not s["accept"])).read()[len(ATTR_PRE):]})
    if accepted_bad:
        src, s = accepted_bad[0]
        rp = c.replay_file("ill_formed_derive_accepted.rs", open(src).read())
        c.violation("derive-accepts", "%d ill-formed derive inputs are not rejected by the derive itself (they compile, or only fail later in rustc on the emitted implementation); first items: %s" % (len(accepted_bad), json.dumps(s["items"])), rp)
    elif rejected_good:      # (a violation found above is reported first; this is about the renderer or about C13's ground)
        src, s, diags = rejected_good[0]
        raise vlib.ToolError("a legal attribute sequence does not compile (legal-neighbour rule; renderer or derive problem outside C20): %s\n%s" % (src, diags[0]["rendered"][:500] if diags else ""))
