"""C16 — MetaType equality is type identity, and identities are coherent."""
import vlib
from checks import texprcommon as T

def run(tier, replay=None):
    c = vlib.Check("C16", tier, "model_checking")
    if replay:
        T.validate(c, "C16", replay); return c.finish()
    thorough = tier == "thorough"
    cases = T.corpus(c, thorough, thorough)
    tr = T.observe(c, cases, 70, 0, limit=None)
    T.validate(c, "C16", tr)
    # the same programs OPTIMISED (opt-level 3: functions with identical machine code are merged, constants folded):
    # what == / cmp / hash say about two types must not depend on how the program was compiled
    tr2 = T.observe(c, cases, 70, 0, limit=None if thorough else 12, rustc_extra=["-C", "opt-level=3"])
    T.validate(c, "C16", tr2)
    c.cov["exhaustive"] = False
    c.cov["rule"] = "TLC-enumerated built-in type expressions (all leaves, every unary constructor over every leaf, wrappers of wrappers, binaries, tuple arities 0..20, arrays, BitVec) in generated programs of ~70 expressions: per program the full ==, cmp, partial_cmp and hash matrices over all ordered pairs are compared with the identities DECLARED by the types (TypeId of <T as TypeInfo>::Identity, read by the program itself), order axioms checked, equal identity => equal type_info(); the programs are compiled unoptimised and (a part of them in the quick tier) with opt-level 3"
    c.assumptions += ["pairs are compared within a program (70 expressions -> 4900 ordered pairs), not across programs"]
    return c.finish()
