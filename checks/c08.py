"""C08 — see jsoncommon.py."""
from checks import jsoncommon

def run(tier, replay=None):
    return jsoncommon.run_c08(tier, replay)
