"""Shared driver for the JSON properties C08, C19 and the JSON half of C14 (specs/JsonForm.tla, JsonSchema.tla)."""
import json, os, subprocess
import vlib

def cfg(wd, name, body):
    p = os.path.join(wd, name); open(p, "w").write(body); return p

def trace_cfg(wd, pid):
    return cfg(wd, "Trace_Json_%s.cfg" % pid, 'CONSTANTS\n Check = "%s"\nSPECIFICATION Spec\nCONSTRAINT Track\nPOSTCONDITION Accepted\nVIEW View\nCHECK_DEADLOCK FALSE\n' % pid)

def exe():
    return os.path.join(vlib.cargo_build(["json"]), "json")

def count_cases(path):
    return sum(1 for l in open(path) if l.startswith('<<"CASE"'))

def shape_cases(c):
    """design: the documented shape is lossless over the presence lattice; returns the emitted case file"""
    wd = c.wd
    r = vlib.tlc("MC_Json", cfg(wd, "MC_Json_shape.cfg", 'CONSTANTS Mode = "shape" MaxFaults = 0\nSPECIFICATION Spec\nINVARIANT ShapeOK EmitShape\nCHECK_DEADLOCK FALSE\n'), wd, workers=4)
    if not r.ok: raise vlib.ToolError("JsonForm design check failed: " + "\n".join(r.errors[:3]))
    c.add("states", r.distinct); c.add("transitions", r.generated)
    out = os.path.join(wd, "MC_Json_shape.cfg.out")
    n = count_cases(out)
    if n != r.distinct: raise vlib.ToolError("shape case emission incomplete")
    return out, n

def run_shape(c, x, cases, n, alarm):
    mf = os.path.join(c.wd, "shape_mismatch.ndjson"); docs = os.path.join(c.wd, "docs_lattice.ndjson")
    p = vlib.run([x, "shape", cases, mf, docs])
    if p.returncode != 0: raise vlib.ToolError("json shape crashed: " + p.stderr[-2000:])
    s = json.loads(p.stdout.strip().splitlines()[-1])
    if s["executed"] != n: raise vlib.ToolError("shape replay incomplete")
    c.add("evaluations", n); c.add("traces_validated_against_impl", n)
    bad = vlib.ndjson_read(mf)
    if bad and alarm:
        rp = c.replay_file("shape_cases_mismatch.ndjson", "\n".join(json.dumps(b) for b in bad[:30]) + "\n")
        c.violation("shape", "%d registries of the presence lattice: %s" % (len(bad), bad[0]["mismatch"][0][:400]), rp)
    return docs

def validate(c, pid, tr, what):
    evs = vlib.ndjson_read(tr)
    ok, info = vlib.tlc_trace("Trace_Json", trace_cfg(c.wd, pid), c.wd, tr, heap="6g")
    c.add("trace_events", len(evs)); c.add("traces_validated_against_impl", len(evs)); c.add("evaluations", len(evs))
    if not ok:
        bad = evs[info["at"] - 1]
        seg = [e for e in evs[:1] if e.get("ev") == "Schema" and pid == "C19"] + [bad]
        rp = c.replay_file("json_%s_event.ndjson" % what, "\n".join(json.dumps(b) for b in seg) + "\n")
        c.violation("trace", "event #%d (%s) rejected by acceptor %s: %s" % (info["at"], bad.get("ev"), pid, json.dumps(bad)[:300]), rp)
    return ok

def run_c08(tier, replay=None):
    c = vlib.Check("C08", tier, "model_checking")
    x = exe()
    if replay:
        items = vlib.ndjson_read(replay)
        if items and "input" in items[0]:
            cf = os.path.join(c.wd, "cases.ndjson"); vlib.ndjson_write(cf, [i["input"] for i in items]); run_shape(c, x, cf, len(items), True)
        else:
            validate(c, "C08", replay, "replay")
        return c.finish()
    cases, n = shape_cases(c)
    run_shape(c, x, cases, n, True)
    tr = os.path.join(c.wd, "json_rand.ndjson")
    vlib.run([x, "record", str(vlib.seed()), str(1200 if tier == "thorough" else 200), tr], check=True)
    evs = [e for e in vlib.ndjson_read(tr) if e["ev"] != "Doc"]
    vlib.ndjson_write(tr, evs)
    c.sample({"ToJson_json_head": json.dumps(evs[0]["json"])[:300]})
    validate(c, "C08", tr, "rand")
    c.cov["exhaustive"] = True
    c.cov["rule"] = "presence lattice: every definition kind (all 15 primitives) x empty/non-empty path, params (with/without type), fields, variants, docs, names, type names, with empty, non-ASCII and escaped strings at every string position and ids/lengths at 0, 2^16, 2^32-1: documented shape model-checked lossless, each case through real to_value/from_value/to_string/from_str; random registries recorded and validated by TLC (shape up to member order, documented keys only, inverse = original)"
    c.assumptions += ["serde_json::Value -> tagged tree transcoding (harness/vh/src/jv.rs) is lexical and trusted", "numbers fit u32 (the format's range)"]
    return c.finish()

def schema_event(c):
    vlib.cargo_build(["jschema"], features=["schema"])
    x = os.path.join(vlib.TARGET, "debug", "jschema")
    raw = os.path.join(c.wd, "schema_raw.json")
    p = vlib.run([x, raw])
    if p.returncode != 0: raise vlib.ToolError("jschema failed: " + p.stderr[-1500:])
    return p.stdout.strip().splitlines()[-1], raw

SUBSET = {"$schema", "title", "description", "type", "required", "properties", "items", "definitions", "$ref",
          "allOf", "anyOf", "oneOf", "enum", "format", "minimum", "maximum", "additionalProperties", "default"}

def outside_subset(schema):
    """schema keywords the TLA+ semantics (specs/JsonSchema.tla) does not cover, with their JSON paths"""
    found = []
    def walk(s, path, in_props):
        if isinstance(s, dict):
            for k, v in s.items():
                if not in_props and k not in SUBSET: found.append((path + "/" + k, k))
                walk(v, path + "/" + k, (k in ("properties", "definitions")) and not in_props)
        elif isinstance(s, list):
            for i, v in enumerate(s): walk(v, path + "/%d" % i, False)
    walk(schema, "#", False)
    return found

def strip_outside(s, in_props=False):
    if isinstance(s, dict):
        return {k: strip_outside(v, (k in ("properties", "definitions")) and not in_props) for k, v in s.items() if in_props or k in SUBSET}
    if isinstance(s, list): return [strip_outside(v) for v in s]
    return s

def python_validate(raw_schema_path, trace_path):
    code = "import json,sys,jsonschema\nsys.path.insert(0,%r)\n" % os.path.join(vlib.VERIF, "lib")
    code += "import jvpy\ns=json.load(open(%r))\nv=jsonschema.Draft7Validator(s)\nbad=[]\nfor n,l in enumerate(open(%r)):\n e=json.loads(l)\n if e.get('ev')=='Doc':\n  errs=list(v.iter_errors(jvpy.from_jv(e['d'])))\n  if errs: bad.append([n, errs[0].message[:200], list(errs[0].absolute_schema_path)[-3:]])\nprint(json.dumps(bad[:20])); print(len(bad))\n" % (raw_schema_path, trace_path)
    p = subprocess.run(["python3-vt", "-c", code], stdout=subprocess.PIPE, stderr=subprocess.PIPE, text=True)
    if p.returncode != 0: raise vlib.ToolError("python jsonschema failed: " + p.stderr[-800:])
    lines = p.stdout.strip().splitlines()
    return json.loads(lines[0]), int(lines[1])

def run_c19(tier, replay=None):
    c = vlib.Check("C19", tier, "model_checking")
    x = exe()
    if replay:
        validate(c, "C19", replay, "replay")
        return c.finish()
    sch, raw = schema_event(c)
    cases, n = shape_cases(c)
    docs = run_shape(c, x, cases, n, False)          # real documents of the presence lattice (C08 judges their shape)
    tr0 = os.path.join(c.wd, "json_rand.ndjson")
    vlib.run([x, "record", str(vlib.seed()), str(1200 if tier == "thorough" else 200), tr0], check=True)
    tr = os.path.join(c.wd, "schema_docs.ndjson")
    with open(tr, "w") as f:
        f.write(sch + "\n")
        f.write(open(docs).read())
        for e in vlib.ndjson_read(tr0):
            if e["ev"] == "Doc": f.write(json.dumps(e) + "\n")
    c.sample({"schema_head": sch[:300]})
    # keywords outside the TLA+ subset (e.g. `pattern`, `maxLength`): TLC cannot judge them, so for exactly those
    # a standard validator (python jsonschema, Draft 7) judges the same real documents, and TLC judges the rest
    raw_schema = json.load(open(raw))
    extra = outside_subset(raw_schema)
    if extra:
        c.cov["schema_keywords_outside_tla_subset"] = sorted(set(k for _, k in extra))
        bad, nbad = python_validate(raw, tr)
        if nbad:
            evs = vlib.ndjson_read(tr)
            rp = c.replay_file("schema_rejects_real_document.ndjson", json.dumps(evs[0]) + "\n" + json.dumps(evs[bad[0][0]]) + "\n")
            c.violation("schema-keyword", "the generated schema uses %s and rejects %d real serialised registries, e.g. %s at %s" % (sorted(set(k for _, k in extra)), nbad, bad[0][1], bad[0][2]), rp)
        # let TLC validate everything else: re-transcode the schema without those keywords
        import sys as _s
        _s.path.insert(0, os.path.join(vlib.VERIF, "lib"))
        import jvpy
        stripped = strip_outside(raw_schema)
        lines = open(tr).read().splitlines()
        lines[0] = json.dumps({"ev": "Schema", "s": jvpy.schema_to_jv(stripped)})
        open(tr, "w").write("\n".join(lines) + "\n")
    ok = validate(c, "C19", tr, "docs")
    c.cov["programs"] = 1
    if True:
        # second opinion: python jsonschema on the same real documents; a disagreement is a tool error, not a verdict
        import sys
        code = "import json,sys,jsonschema\nsys.path.insert(0,%r)\n" % os.path.join(vlib.VERIF, "lib")
        code += "import jvpy\ns=json.load(open(%r))\nv=jsonschema.Draft7Validator(s)\nbad=0\nfor l in open(%r):\n e=json.loads(l)\n if e.get('ev')=='Doc' and list(v.iter_errors(jvpy.from_jv(e['d']))): bad+=1\nprint(bad)\n" % (raw, tr)
        p = subprocess.run(["python3-vt", "-c", code], stdout=subprocess.PIPE, stderr=subprocess.PIPE, text=True)
        if p.returncode != 0: raise vlib.ToolError("python jsonschema second opinion failed: " + p.stderr[-800:])
        pybad = int(p.stdout.strip() or 0)
        c.cov["python_jsonschema_rejections"] = pybad
        if (pybad == 0) != ok:
            raise vlib.ToolError("TLA+ schema semantics and python jsonschema disagree (%d rejections vs accepted=%s)" % (pybad, ok))
    c.cov["exhaustive"] = True
    c.cov["rule"] = "the real schemars-generated schema for PortableRegistry (built with feature schema) evaluated by the JsonSchema semantics in TLC on the real serialisation of every registry of the presence lattice and of random registries"
    c.assumptions += ["draft-07 subset: type, properties, required, additionalProperties:false, items, $ref, allOf/anyOf/oneOf, enum, minimum/maximum with non-negative integer bounds; format treated as annotation; an unknown keyword is a tool error"]
    return c.finish()

def untrusted_leg(c, tier):
    """JSON half of C14: fault machine over documents + fuzz; violation = panic only (the property's own terms)."""
    wd = c.wd
    x = exe()
    k = 2 if tier == "thorough" else 1
    r = vlib.tlc("MC_Json", cfg(wd, "MC_Json_fault.cfg", 'CONSTANTS Mode = "fault" MaxFaults = %d\nSPECIFICATION Spec\nINVARIANT EmitFault\nVIEW View\nCHECK_DEADLOCK FALSE\n' % k), wd, workers=8, heap="10g", timeout=3 * 3600)
    if not r.ok: raise vlib.ToolError("JSON fault machine failed: " + "\n".join(r.errors[:3]))
    out = os.path.join(wd, "MC_Json_fault.cfg.out")
    n = count_cases(out)
    if n != r.distinct: raise vlib.ToolError("JSON fault emission incomplete")
    c.add("json_fault_cases", n); c.add("states", r.distinct); c.add("transitions", r.generated)
    vf = os.path.join(wd, "json_fault_violations.ndjson")
    p = vlib.run([x, "fault", out, vf])
    if p.returncode != 0:
        last = [l for l in p.stderr.splitlines() if l.startswith("@")]
        rp = c.replay_file("abort_json.txt", "case index " + (last[-1] if last else "?") + "\n" + p.stderr[-1500:])
        c.violation("abort", "from_value aborted the process (exit %d)" % p.returncode, rp); return
    s = json.loads(p.stdout.strip().splitlines()[-1])
    c.add("evaluations", s["executed"]); c.add("json_faulted_deserialised_ok", s["deserialised_ok"])
    bad = vlib.ndjson_read(vf)
    ff = os.path.join(wd, "json_fuzz_violations.ndjson")
    p = vlib.run([x, "fuzz", str(vlib.seed()), str(200000 if tier == "thorough" else 30000), ff], check=True)
    s = json.loads(p.stdout.strip().splitlines()[-1])
    c.add("evaluations", s["executed"]); c.add("json_fuzz_inputs", s["executed"])
    bad += vlib.ndjson_read(ff)
    if bad:
        rp = c.replay_file("json_untrusted.ndjson", "\n".join(json.dumps(b) for b in bad[:30]) + "\n")
        c.violation("json-panic", "%d hostile JSON documents make from_value panic: %s" % (len(bad), json.dumps(bad[0]["verdict"])[:200]), rp)

def replay_untrusted(c, items):
    x = exe()
    cf = os.path.join(c.wd, "jcases.ndjson"); vlib.ndjson_write(cf, [i["input"] for i in items])
    vf = os.path.join(c.wd, "json_fault_violations.ndjson")
    vlib.run([x, "fault", cf, vf], check=True)
    bad = vlib.ndjson_read(vf)
    if bad:
        rp = c.replay_file("json_untrusted.ndjson", "\n".join(json.dumps(b) for b in bad[:30]) + "\n")
        c.violation("json-panic", "%d hostile JSON documents make from_value panic" % len(bad), rp)
