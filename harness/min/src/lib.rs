//! see Cargo.toml
