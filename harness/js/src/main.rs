//! Writes the JSON Schema the real schemars derive generates for PortableRegistry (raw JSON) to argv[1].
fn main() {
    let s = schemars::schema_for!(scale_info::PortableRegistry);
    let v = serde_json::to_value(&s).unwrap();
    std::fs::write(std::env::args().nth(1).expect("output path"), serde_json::to_string_pretty(&v).unwrap()).unwrap();
}
