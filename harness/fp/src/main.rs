//! C15: one fingerprint of the metadata of a fixed corpus, built once per feature set.
//! Prints: `full <hex>`, `nodocs <hex>` (every docs vector cleared through the public fields) and,
//! with bit-vec, `bv <hex>` for the BitVec sub-corpus.
#![allow(dead_code)]
use scale::Encode;
use scale_info::{meta_type, MetaType, PortableRegistry, Registry, TypeDef, TypeInfo};
use std::collections::*;

/// A generic, recursive, documented struct.
///   second line, indented
#[derive(TypeInfo)]
struct S<T> {
    /// field doc
    a: Option<T>,
    /// a documented marker: erased whatever the docs feature says
    b: core::marker::PhantomData<T>,
    #[codec(compact)]
    c: u64,
    d: Vec<S<T>>,
    #[codec(skip)]
    e: u8,
}
/// doc E
#[derive(TypeInfo)]
#[scale_info(capture_docs = "always")]
#[repr(u8)]
enum E {
    /// variant doc
    A(
        u8,
        /// documented marker inside a variant
        core::marker::PhantomData<bool>,
        String,
    ),
    B {
        /// named field doc
        x: [i128; 3],
        y: BTreeMap<u8, Result<(), bool>>,
    },
    #[codec(index = 9)]
    C,
    D = 77,
}
/// never captured
#[derive(TypeInfo)]
#[scale_info(capture_docs = "never")]
struct N(
    core::time::Duration,
    core::num::NonZeroU32,
    core::ops::Range<u8>,
    std::borrow::Cow<'static, str>,
    BTreeSet<u16>,
    BinaryHeap<u8>,
    VecDeque<char>,
    std::rc::Rc<str>,
    std::sync::Arc<[u8]>,
    scale::Compact<u128>,
    (u8, (u16,), ()),
    core::ops::RangeInclusive<i64>,
);
mod inner {
    /// nested module, replaced segment
    #[derive(scale_info::TypeInfo)]
    #[scale_info(replace_segment("inner", "outer"), skip_type_params(U))]
    pub struct R<'a, T, U> {
        pub r: &'a T,
        pub m: core::marker::PhantomData<U>,
        #[scale_info(rename = "renamed")]
        pub q: Box<(T, bool)>,
    }
    #[derive(scale_info::TypeInfo)]
    pub enum Unit {}
    #[derive(scale_info::TypeInfo)]
    pub struct Z;
}
// the same documented shapes under every capture_docs mode (the derive emits .docs / .docs_always / nothing)
macro_rules! family {
    ($m:ident $(, $attr:meta)?) => {
        mod $m {
            /// struct doc
            #[derive(scale_info::TypeInfo)]
            $(#[$attr])?
            pub struct St {
                /// field doc
                pub a: u8,
                pub b: (u16, String),
            }
            /// tuple struct doc
            #[derive(scale_info::TypeInfo)]
            $(#[$attr])?
            pub struct Tu(
                /// member doc
                pub u32,
                pub Option<bool>,
            );
            /// enum doc
            #[derive(scale_info::TypeInfo)]
            $(#[$attr])?
            pub enum En {
                /// documented variant with unnamed fields
                A(u8, /** member doc */ Vec<i16>),
                /// documented variant with named fields
                B {
                    /// field doc
                    x: [u8; 4],
                    y: Option<u64>,
                },
                /// documented unit variant
                C,
                D(i64),
            }
        }
    };
}
family!(cap_absent);
family!(cap_default, scale_info(capture_docs = "default"));
family!(cap_always, scale_info(capture_docs = "always"));
family!(cap_never, scale_info(capture_docs = "never"));
// user types met first INSIDE built-in constructors, with repetition and sharing: the order in which a
// constructor's members are registered must be member order, whatever the TypeIds of this build happen to be
macro_rules! users { ($($n:ident),*) => { $( #[derive(TypeInfo)] struct $n { v: u8 } )* } }
users!(U1, U2, U3, U4, U5, U6, U7, U8, U9, U10, U11, U12);
// SPECIAL STRINGS at every string position of the data model (type / module / field / variant names written as raw
// identifiers, documentation with quotes, backslashes, JSON look-alikes, non-ASCII text, blank and very long lines;
// hand-written paths, type names and parameter names of the same kinds): no feature may touch a string
#[allow(non_camel_case_types)]
mod r#async {
    /// "quoted" \\ back\\slash {"json": [1, 2]}
    ///
    /// naïve café — 日本語 🦀
    #[derive(scale_info::TypeInfo)]
    #[scale_info(capture_docs = "always")]
    pub struct r#type {
        /// r#field
        pub r#fn: u8,
        pub r#match: Vec<r#type>,
        pub plain: super::r#mod::r#enum,
    }
    #[derive(scale_info::TypeInfo)]
    pub enum Plain { r#loop, r#where { r#in: u16 }, r#Self_(r#type) }
}
#[allow(non_camel_case_types)]
mod r#mod {
    #[derive(scale_info::TypeInfo)]
    #[repr(u8)]
    pub enum r#enum { r#struct = 7, r#use(u8) }
}
// documentation that ENDS with blank lines (type, member, variant), derived and hand-written
mod trailing {
    /// ends with blank lines
    ///
    ///
    #[derive(scale_info::TypeInfo)]
    #[scale_info(capture_docs = "always")]
    pub struct St {
        /// member
        ///
        pub a: u8,
    }
    /// an enum
    ///
    #[derive(scale_info::TypeInfo)]
    #[scale_info(capture_docs = "always")]
    pub enum En {
        /// fieldless, documented
        ///
        A,
        /// fieldless too
        B,
    }
}
struct HandBlank;
impl TypeInfo for HandBlank {
    type Identity = Self;
    fn type_info() -> scale_info::Type {
        scale_info::Type::builder().path(scale_info::Path::new("HandBlank", "fp")).docs_always(&["text", "", ""])
            .variant(scale_info::build::Variants::new().variant("A", |v| v.index(0).docs_always(&["", ""])).variant("B", |v| v.index(1).docs_always(&["b", ""])))
    }
}
struct HandStrings;
impl TypeInfo for HandStrings {
    type Identity = Self;
    fn type_info() -> scale_info::Type {
        scale_info::Type::builder()
            .path(scale_info::Path::new_with_replace("r#HandStrings", "r#crate::r#a::b_::r#try", &[("b_", "r#b")]))
            .type_params(vec![scale_info::TypeParameter::new("r#T", Some(meta_type::<u8>())), scale_info::TypeParameter::new("r#U", None)])
            .docs_always(&["", " ", "r#doc", "a very long line: 0123456789012345678901234567890123456789012345678901234567890123456789", "\u{0}\t\r\n", "\"}]"])
            .variant(
                scale_info::build::Variants::new()
                    .variant("r#v", |v| v.index(0).fields(scale_info::build::Fields::named().field(|f| f.ty::<u8>().name("r#f").type_name("r#u8")).field(|f| f.ty::<HandStrings>().name("").type_name(""))))
                    .variant("", |v| v.index(255).docs_always(&["\u{feff}bom", "r#"]).fields(scale_info::build::Fields::unnamed().field(|f| f.ty::<bool>().type_name("r#async::r#type<'static, r#T>")))),
            )
    }
}
trait Cfg { type A; }
struct CfgImpl;
impl Cfg for CfgImpl { type A = u32; }
#[derive(TypeInfo)]
#[scale_info(skip_type_params(C))]
struct Assoc<C: Cfg> { a: C::A, b: Vec<C::A> }

// a large generated corpus of built-in type expressions (written by checks/c15.py from the TLC-enumerated
// corpus of specs/MC_TypeExpr.tla); absent -> empty
#[cfg(fp_corpus)]
include!(concat!(env!("FP_CORPUS_DIR"), "/gen_corpus.rs"));
#[cfg(not(fp_corpus))]
fn gen_corpus() -> Vec<MetaType> {
    vec![]
}
#[cfg(not(fp_corpus))]
fn gen_builders() -> Vec<MetaType> {
    vec![]
}

fn corpus() -> Vec<MetaType> {
    let mut v = base_corpus();
    v.extend(gen_corpus());
    v.extend(gen_builders());
    v
}
fn base_corpus() -> Vec<MetaType> {
    vec![
        meta_type::<(U1, U2, U1)>(), meta_type::<(U4, U3, U4, U3)>(), meta_type::<(U5, U6, U7, U5, U6)>(), meta_type::<(U8, u8, U9, U8)>(),
        meta_type::<Result<(U10, U11, U10), (U12, U11, U12)>>(), meta_type::<BTreeMap<(U2, U1, U2), [(U3, U3, U4); 2]>>(),
        meta_type::<cap_absent::St>(), meta_type::<cap_absent::Tu>(), meta_type::<cap_absent::En>(),
        meta_type::<cap_default::St>(), meta_type::<cap_default::Tu>(), meta_type::<cap_default::En>(),
        meta_type::<cap_always::St>(), meta_type::<cap_always::Tu>(), meta_type::<cap_always::En>(),
        meta_type::<cap_never::St>(), meta_type::<cap_never::Tu>(), meta_type::<cap_never::En>(),
        meta_type::<S<E>>(), meta_type::<S<u8>>(), meta_type::<N>(), meta_type::<core::marker::PhantomData<u8>>(),
        meta_type::<inner::R<'static, u16, String>>(), meta_type::<inner::Unit>(), meta_type::<inner::Z>(), meta_type::<Assoc<CfgImpl>>(),
        meta_type::<(u8, u16, u32, u64, u128, i8, i16, i32, i64, i128, bool, char, String)>(),
        meta_type::<[Option<Vec<Box<str>>>; 33]>(), meta_type::<Result<&'static [u8], &'static mut String>>(),
        meta_type::<BTreeMap<String, Vec<(u8, Option<E>)>>>(), meta_type::<scale::Compact<()>>(), meta_type::<core::num::NonZeroI128>(),
        meta_type::<(u8, u8, u8, u8, u8, u8, u8, u8, u8, u8, u8, u8, u8, u8, u8, u8, u8, u8, u8, u8)>(),
        meta_type::<r#async::r#type>(), meta_type::<r#async::Plain>(), meta_type::<r#mod::r#enum>(), meta_type::<HandStrings>(),
        meta_type::<trailing::St>(), meta_type::<trailing::En>(), meta_type::<HandBlank>(),
    ]
}
fn hex(b: &[u8]) -> String {
    b.iter().map(|x| format!("{:02x}", x)).collect()
}
fn strip(p: &mut PortableRegistry) {
    for t in p.types.iter_mut() {
        t.ty.docs.clear();
        match &mut t.ty.type_def {
            TypeDef::Composite(c) => c.fields.iter_mut().for_each(|f| f.docs.clear()),
            TypeDef::Variant(v) => v.variants.iter_mut().for_each(|v| {
                v.docs.clear();
                v.fields.iter_mut().for_each(|f| f.docs.clear())
            }),
            _ => {}
        }
    }
}
fn print(tag: &str, metas: Vec<MetaType>) {
    let mut r = Registry::new();
    for m in &metas {
        r.register_type(m);
    }
    let mut p: PortableRegistry = r.into();
    println!("{tag}full {}", hex(&p.encode()));
    strip(&mut p);
    println!("{tag}nodocs {}", hex(&p.encode()));
}
fn main() {
    print("", corpus());
    // the same corpus AGAIN in a fresh registry of the same thread, and once more in the opposite order: what a
    // registry produces must not depend on what the thread (or process) converted before
    print("second", corpus());
    let mut rev = corpus();
    rev.reverse();
    print("rev", rev);
    #[cfg(feature = "bit-vec")]
    {
        use bitvec::{order::{Lsb0, Msb0}, vec::BitVec};
        #[derive(TypeInfo)]
        struct WithBits { bits: BitVec<u8, Lsb0>, other: BitVec<u64, Msb0> }
        print("bv", vec![meta_type::<BitVec<u16, Lsb0>>(), meta_type::<WithBits>(), meta_type::<Option<BitVec<u32, Msb0>>>()]);
    }
}
