//! Runtime support for generated "type expression" programs (C04, C05 iv, C16, C17): every
//! expression is a Rust type known only to the generated program; these generic helpers log what
//! the library says about it.
use crate::proj::{self, Mode};
use crate::val::Val;
use rand::{rngs::StdRng, SeedableRng};
use scale::Encode;
use scale_info::{form::MetaForm, meta_type, Field, MetaType, PortableRegistry, Registry, Type, TypeDef, TypeInfo};
use serde_json::{json, Value};
use std::any::TypeId;
use std::collections::hash_map::DefaultHasher;
use std::hash::{Hash, Hasher};
use std::io::Write;

pub fn tid(m: &MetaType) -> Value {
    json!(format!("{:?}", m.type_id()))
}
fn mfield(f: &Field<MetaForm>) -> Value {
    json!({"name": f.name.into_iter().collect::<Vec<_>>(), "ty": tid(&f.ty), "tn": f.type_name.into_iter().collect::<Vec<_>>(), "docs": f.docs})
}
/// Neutral projection of a compile-time-form type; references become the Debug text of their TypeId.
pub fn meta_body(t: &Type<MetaForm>) -> Value {
    let def = match &t.type_def {
        TypeDef::Composite(c) => json!({"tag": "composite", "fields": c.fields.iter().map(mfield).collect::<Vec<_>>()}),
        TypeDef::Variant(v) => json!({"tag": "variant", "variants": v.variants.iter().map(|x| json!({
            "name": x.name, "fields": x.fields.iter().map(mfield).collect::<Vec<_>>(), "index": x.index, "docs": x.docs})).collect::<Vec<_>>()}),
        TypeDef::Sequence(s) => json!({"tag": "sequence", "ty": tid(&s.type_param)}),
        TypeDef::Array(a) => json!({"tag": "array", "len": a.len, "ty": tid(&a.type_param)}),
        TypeDef::Tuple(tp) => json!({"tag": "tuple", "tys": tp.fields.iter().map(tid).collect::<Vec<_>>()}),
        TypeDef::Primitive(p) => json!({"tag": "primitive", "prim": proj::prim_name(p)}),
        TypeDef::Compact(c) => json!({"tag": "compact", "ty": tid(&c.type_param)}),
        TypeDef::BitSequence(b) => json!({"tag": "bitsequence", "store": tid(&b.bit_store_type), "order": tid(&b.bit_order_type)}),
    };
    json!({
        "path": t.path.segments,
        "params": t.type_params.iter().map(|p| json!({"name": p.name, "ty": p.ty.iter().map(tid).collect::<Vec<_>>()})).collect::<Vec<_>>(),
        "def": def,
        "docs": t.docs,
    })
}

pub struct Ctx {
    pub rng: StdRng,
    metas: Vec<MetaType>,
    out: std::io::BufWriter<std::io::Stdout>,
    reg: Option<PortableRegistry>,
    ids: Vec<u32>,
    nvals: usize,
}
impl Ctx {
    pub fn new(seed: u64, nvals: usize) -> Self {
        Ctx { rng: StdRng::seed_from_u64(seed), metas: vec![], out: std::io::BufWriter::new(std::io::stdout()), reg: None, ids: vec![], nvals }
    }
    fn put(&mut self, v: &Value) {
        serde_json::to_writer(&mut self.out, v).unwrap();
        self.out.write_all(b"\n").unwrap();
    }
    /// one expression: its AST (as given by the generator), the identity it declares, what MetaType reports
    pub fn expr<T: TypeInfo + ?Sized + 'static>(&mut self, ast: &str)
    where
        T::Identity: TypeInfo,
    {
        let m = meta_type::<T>();
        let decl = format!("{:?}", TypeId::of::<T::Identity>());
        // the declared identity is itself a type with type info: what IT reports, and what identity IT declares
        let idinfo = meta_body(&<T::Identity as TypeInfo>::type_info());
        let idid = format!("{:?}", TypeId::of::<<T::Identity as TypeInfo>::Identity>());
        let i = self.metas.len();
        // the AST is spliced in as text: deeply nested expressions exceed serde_json's parse depth
        let mut line = serde_json::to_string(&json!({"ev": "Expr", "i": i, "tid": tid(&m), "decl": decl, "idinfo": idinfo, "idid": idid, "info": meta_body(&m.type_info())})).unwrap();
        line.pop();
        line.push_str(",\"e\":");
        line.push_str(ast);
        line.push('}');
        self.out.write_all(line.as_bytes()).unwrap();
        self.out.write_all(b"\n").unwrap();
        self.metas.push(m);
    }
    /// register every expression, in order, in ONE registry; then the comparison matrices
    pub fn finish_exprs(&mut self) {
        let mut r = Registry::new();
        self.ids = self.metas.iter().map(|m| r.register_type(m).id).collect();
        let p: PortableRegistry = r.into();
        self.put(&json!({"ev": "Reg", "ids": self.ids, "types": proj::registry(Mode::Plain, &p)}));
        // C11 (iii): the same roots in another order (reversed, and rotated) -> same registry up to renaming
        for k in [0usize, self.metas.len() / 3] {
            let mut order: Vec<usize> = (0..self.metas.len()).rev().collect();
            order.rotate_left(k);
            let mut r2 = Registry::new();
            let mut ids2 = vec![0u32; self.metas.len()];
            for &i in &order {
                ids2[i] = r2.register_type(&self.metas[i]).id;
            }
            let p2: PortableRegistry = r2.into();
            self.put(&json!({"ev": "Perm", "ids1": self.ids, "types1": proj::registry(Mode::Plain, &p), "ids2": ids2, "types2": proj::registry(Mode::Plain, &p2)}));
        }
        // C02 on real types: the extracted compile-time graph vs the registry built from it
        let fe = crate::extract::faithful_event(&self.metas);
        self.put(&fe);
        // C10 on registries of real types: retain with a few filters
        for (k, keep) in [(0usize, (0..p.types.len() as u32).filter(|i| i % 3 == 0).collect::<Vec<u32>>()),
                          (1, vec![*self.ids.last().unwrap_or(&0)]),
                          (2, self.ids.iter().cloned().take(2).collect())] {
            let outside = k != 1;       // the filter as a total predicate: its answer for numbers that are no ids
            let mut q = p.clone();
            let old = proj::registry(Mode::Plain, &q);
            let ks = keep.clone();
            // retain's premise is a well-formed input; if the registry at hand is not (another property's
            // matter) retain may panic: the event records the panic and is judged only on well-formed inputs
            let nn = q.types.len() as u32;
            let r = crate::guarded(move || {
                let map = q.retain(|i| if i < nn { ks.contains(&i) } else { outside });
                (map, q)
            });
            if let Err(pn) = &r {
                // judged only when `old` is well-formed (the acceptor's caller filters on that)
                self.put(&json!({"ev": "Retain", "old": old, "keep": keep, "outside": outside, "panic": pn}));
            }
            if let Ok((map, q)) = r {
                self.put(&json!({"ev": "Retain", "old": old, "keep": keep, "outside": outside, "map": map.iter().map(|(a, b)| json!([a, b])).collect::<Vec<_>>(), "new": proj::registry(Mode::Plain, &q)}));
            }
        }
        self.reg = Some(p);
        let n = self.metas.len();
        let h = |m: &MetaType| {
            let mut s = DefaultHasher::new();
            m.hash(&mut s);
            s.finish()
        };
        let eq: Vec<Vec<bool>> = (0..n).map(|i| (0..n).map(|j| self.metas[i] == self.metas[j]).collect()).collect();
        let cmp: Vec<Vec<u8>> = (0..n).map(|i| (0..n).map(|j| match self.metas[i].cmp(&self.metas[j]) { std::cmp::Ordering::Less => 0u8, std::cmp::Ordering::Equal => 1, std::cmp::Ordering::Greater => 2 }).collect()).collect();
        let pcmp: Vec<Vec<bool>> = (0..n).map(|i| (0..n).map(|j| self.metas[i].partial_cmp(&self.metas[j]) == Some(self.metas[i].cmp(&self.metas[j]))).collect()).collect();
        let heq: Vec<Vec<bool>> = (0..n).map(|i| (0..n).map(|j| h(&self.metas[i]) == h(&self.metas[j])).collect()).collect();
        self.put(&json!({"ev": "Matrix", "eq": eq, "cmp": cmp, "pcmp": pcmp, "heq": heq}));
    }
    /// values of expression `i`: what the value is (hand-written oracle) and its real SCALE encoding
    pub fn values<T: Val + Encode + TypeInfo + 'static>(&mut self, i: usize) {
        // the same type registered ALONE in a fresh registry: what a decoder gets when nothing of the type was
        // met before (the shared registry of the program has usually seen its leaves already)
        if self.nvals > 0 {
            let mut r = Registry::new();
            let id = r.register_type(&meta_type::<T>()).id;
            let p: PortableRegistry = r.into();
            self.put(&json!({"ev": "Solo", "i": i, "id": id, "types": proj::registry(Mode::Plain, &p)}));
        }
        for _ in 0..self.nvals {
            let v = T::gen(&mut self.rng, 0);
            let ev = json!({"ev": "Value", "i": i, "tree": v.tree(), "bytes": v.encode()});
            self.put(&ev);
        }
    }
    pub fn done(mut self) {
        self.out.flush().unwrap();
    }
}
