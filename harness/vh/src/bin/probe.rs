fn main(){}
