//! Registry conformance (C01 C02 C05 C11) against specs/Registry.tla.
//!   reg replay <cases.ndjson> <mismatches.ndjson>     TLC behaviours -> real Registry, compare
//!   reg record <seed> <n_universes> <nested:0|1> <out.ndjson>   random universes/histories -> trace
use rand::{rngs::StdRng, seq::SliceRandom, Rng, SeedableRng};
use scale::Encode;
use scale_info::{PortableRegistry, Registry};
use serde_json::{json, Value};
use vh::{guarded, proj, proj::Mode, read_ndjson, uni, Out};

fn snapshot(r: &Registry) -> Value {
    Value::Array(r.types().map(|(k, t)| proj::entry(Mode::Plain, k.id, t)).collect())
}

fn refs(e: &Value) -> Vec<u64> {
    let mut out = vec![];
    for p in e["params"].as_array().unwrap() {
        if let Some(t) = p["ty"].as_array().unwrap().first() {
            out.push(t.as_u64().unwrap());
        }
    }
    let d = &e["def"];
    let fr = |fs: &Value, out: &mut Vec<u64>| {
        for f in fs.as_array().unwrap() {
            out.push(f["ty"].as_u64().unwrap());
        }
    };
    match d["tag"].as_str().unwrap() {
        "composite" => fr(&d["fields"], &mut out),
        "variant" => {
            for v in d["variants"].as_array().unwrap() {
                fr(&v["fields"], &mut out)
            }
        }
        "sequence" | "array" | "compact" => out.push(d["ty"].as_u64().unwrap()),
        "tuple" => out.extend(d["tys"].as_array().unwrap().iter().map(|x| x.as_u64().unwrap())),
        "bitsequence" => {
            out.push(d["store"].as_u64().unwrap());
            out.push(d["order"].as_u64().unwrap())
        }
        _ => {}
    }
    out
}
/// Copy of an entry (either form) with every type reference blanked: what must be *identical*
/// between a portable definition and the compile-time definition it is the image of.
fn blank(e: &Value) -> Value {
    let mut e = e.clone();
    let o = e.as_object_mut().unwrap();
    o.remove("id");
    for p in o.get_mut("params").unwrap().as_array_mut().unwrap() {
        let t = p["ty"].as_array_mut().unwrap();
        if !t.is_empty() {
            t[0] = json!(0);
        }
    }
    let d = o.get_mut("def").unwrap();
    let bf = |fs: &mut Value| {
        for f in fs.as_array_mut().unwrap() {
            f["ty"] = json!(0);
        }
    };
    match d["tag"].as_str().unwrap().to_string().as_str() {
        "composite" => bf(&mut d["fields"]),
        "variant" => {
            for v in d["variants"].as_array_mut().unwrap() {
                bf(&mut v["fields"])
            }
        }
        "sequence" | "array" | "compact" => d["ty"] = json!(0),
        "tuple" => {
            for x in d["tys"].as_array_mut().unwrap() {
                *x = json!(0)
            }
        }
        "bitsequence" => {
            d["store"] = json!(0);
            d["order"] = json!(0)
        }
        _ => {}
    }
    e
}
/// References of a compile-time entry as identities (spelling -> node, phantom -> last identity).
fn info_refs(e: &Value, phantom: usize) -> Vec<usize> {
    let sp = |v: &Value| if v["w"].as_u64() == Some(uni::PHANTOM_W) { phantom } else { v["t"].as_u64().unwrap() as usize };
    let mut out = vec![];
    for p in e["params"].as_array().unwrap() {
        if let Some(t) = p["ty"].as_array().unwrap().first() {
            out.push(sp(t));
        }
    }
    let d = &e["def"];
    let mut fr = |fs: &Value, out: &mut Vec<usize>| {
        for f in fs.as_array().unwrap() {
            out.push(sp(&f["ty"]));
        }
    };
    match d["tag"].as_str().unwrap() {
        "composite" => fr(&d["fields"], &mut out),
        "variant" => {
            for v in d["variants"].as_array().unwrap() {
                fr(&v["fields"], &mut out)
            }
        }
        "sequence" | "array" | "compact" => out.push(sp(&d["ty"])),
        "tuple" => out.extend(d["tys"].as_array().unwrap().iter().map(sp)),
        "bitsequence" => {
            out.push(sp(&d["store"]));
            out.push(sp(&d["order"]))
        }
        _ => {}
    }
    out
}
/// C02's statement, relationally: starting from (returned id, identity) pairs, the entry an id
/// resolves to is identical to that identity's own type_info() up to references, and each reference
/// in turn resolves to the referenced type's definition.
fn image_ok(info: &Value, snap: &Value, roots: &[(u64, usize)]) -> Result<(), String> {
    let infos = info.as_array().unwrap();
    let entries = snap.as_array().unwrap();
    let mut seen = std::collections::BTreeSet::new();
    let mut work: Vec<(u64, usize)> = roots.to_vec();
    while let Some((id, t)) = work.pop() {
        if !seen.insert((id, t)) {
            continue;
        }
        let Some(e) = entries.get(id as usize) else { return Err(format!("id {id} does not resolve")) };
        if blank(e) != blank(&infos[t]) {
            return Err(format!("id {id} resolves to {} but type_info() of identity {t} is {}", blank(e), blank(&infos[t])));
        }
        let (a, b) = (refs(e), info_refs(&infos[t], infos.len() - 1));
        if a.len() != b.len() {
            return Err(format!("id {id}: {} references, type_info() has {}", a.len(), b.len()));
        }
        work.extend(a.into_iter().zip(b));
    }
    Ok(())
}
fn sp_ident(v: &Value, phantom: usize) -> usize {
    if v["w"].as_u64() == Some(uni::PHANTOM_W) { phantom } else { v["t"].as_u64().unwrap() as usize }
}
/// (returned id, identity) pairs of one history step
fn step_roots(h: &Value, ret: &Value, phantom: usize) -> Vec<(u64, usize)> {
    match h[0].as_str().unwrap() {
        "one" => vec![(ret[1].as_u64().unwrap(), sp_ident(&h[1], phantom))],
        "many" => h[1].as_array().unwrap().iter().zip(ret[1].as_array().unwrap()).map(|(s, r)| (r.as_u64().unwrap(), sp_ident(s, phantom))).collect(),
        _ => h[1].as_array().unwrap().iter().zip(ret[1].as_array().unwrap()).map(|(f, r)| (r["ty"].as_u64().unwrap(), sp_ident(&f["ty"], phantom))).collect(),
    }
}

fn well_formed(snap: &Value) -> bool {
    let a = snap.as_array().unwrap();
    a.iter().enumerate().all(|(i, e)| e["id"].as_u64() == Some(i as u64) && refs(e).iter().all(|r| (*r as usize) < a.len()))
}

/// Execute one history step on the real registry; returns the observable result.
fn step(reg: &mut Registry, h: &Value) -> Value {
    let kind = h[0].as_str().unwrap();
    match kind {
        "one" => json!(["id", reg.register_type(&uni::sp(&h[1])).id]),
        "many" => {
            let ms: Vec<_> = h[1].as_array().unwrap().iter().map(uni::sp).collect();
            json!(["ids", reg.register_types(ms).iter().map(|s| s.id).collect::<Vec<_>>()])
        }
        "fields" => {
            let fs: Vec<_> = h[1].as_array().unwrap().iter().map(uni::mfield).collect();
            let out = reg.map_into_portable(fs);
            json!(["fields", out.iter().map(|f| proj::field(Mode::Plain, f)).collect::<Vec<_>>()])
        }
        _ => panic!("hist kind {kind}"),
    }
}

struct Run {
    rets: Vec<Value>,
    snaps: Vec<Value>,
    evals: Vec<Vec<Value>>,
    fin: PortableRegistry,
}
fn run_history(info: &Value, hist: &[Value]) -> Result<Run, String> {
    let info = info.clone();
    let hist = hist.to_vec();
    guarded(move || {
        uni::load(&info);
        uni::take_log();
        let mut reg = Registry::new();
        let (mut rets, mut snaps, mut evals) = (vec![], vec![], vec![]);
        for h in &hist {
            rets.push(step(&mut reg, h));
            evals.push(uni::take_log());
            snaps.push(snapshot(&reg));
        }
        Run { rets, snaps, evals, fin: reg.into() }
    })
}

fn replay(cases: &str, outp: &str) {
    let mut out = Out::create(outp);
    let (mut n, mut bad) = (0u64, 0u64);
    for (ci, c) in vh::stream_ndjson(cases).enumerate() {
        let c = &c;
        n += 1;
        eprintln!("@{ci}");
        let hist = c["hist"].as_array().unwrap();
        let nn = c["info"].as_array().unwrap().len();
        let mut mism: Vec<(&str, String)> = vec![];
        match run_history(&c["info"], hist) {
            Err(p) => mism.push(("c02", format!("panic: {p}"))),
            Ok(r) => {
                let fin = proj::registry(Mode::Plain, &r.fin);
                // C01: the real result is dense and closed, resolve(i) is entry i
                if !well_formed(&fin) {
                    mism.push(("c01", "final registry not dense/closed".into()));
                }
                for (i, pt) in r.fin.types.iter().enumerate() {
                    if r.fin.resolve(i as u32) != Some(&pt.ty) || pt.id != i as u32 {
                        mism.push(("c01", format!("resolve({i}) is not the entry labelled {i}")));
                    }
                }
                // C02: every returned id resolves, in the final registry, to the image of type_info()
                let roots: Vec<(u64, usize)> = hist.iter().zip(r.rets.iter()).flat_map(|(h, x)| step_roots(h, x, nn - 1)).collect();
                if let Err(m) = image_ok(&c["info"], &fin, &roots) {
                    mism.push(("c02", m));
                }
                // refinement of the deterministic model (reported, attributed by the relational acceptors)
                if json!(r.rets) != c["rets"] || fin != c["types"] {
                    mism.push(("model", format!("state differs from the model's: ids {} expected {}", json!(r.rets), c["rets"])));
                }
                // C05: evaluation counts, hit is a no-op
                let mut cnt = vec![0u64; nn];
                for e in r.evals.iter().flatten() {
                    cnt[e["t"].as_u64().unwrap() as usize] += 1;
                }
                // the phantom identity is evaluated by the library's own impl, not observable: copy expectation
                cnt[nn - 1] = c["evals"][nn - 1].as_u64().unwrap();
                if json!(cnt) != c["evals"] {
                    mism.push(("c05", format!("type_info() evaluation counts {} expected {}", json!(cnt), c["evals"])));
                }
                for i in 1..r.snaps.len() {
                    let (a, b) = (r.snaps[i - 1].as_array().unwrap(), r.snaps[i].as_array().unwrap());
                    // C11: every later state extends the earlier one
                    if b.len() < a.len() || a.iter().zip(b.iter()).any(|(x, y)| x != y) {
                        mism.push(("c11", format!("state after call {i} does not extend the state before it")));
                    }
                }
                if fin != *r.snaps.last().unwrap() {
                    mism.push(("c11", "PortableRegistry::from differs from the last observed state".into()));
                }
            }
        }
        if !mism.is_empty() {
            bad += 1;
            out.put(&json!({"case": ci, "input": c, "mismatch": mism.iter().map(|(a, m)| json!({"aspect": a, "msg": m})).collect::<Vec<_>>()}));
        }
    }
    out.flush();
    println!("{}", json!({"executed": n, "mismatching_cases": bad}));
}

// ------------------------------------------------------------------------------------------------
// random universes

fn rand_sp(rng: &mut StdRng, n: usize, nested: bool) -> Value {
    let t = rng.gen_range(0..n);
    let w = match rng.gen_range(0..20) {
        0..=7 => 0,
        8..=9 => 1,
        10 => 2,
        11 => 3,
        12 => 4,
        13 => 5,
        14 => 6,
        15 if nested => 7,
        16 if nested => 8,
        17 if nested => [9, 10, 11, 12][rng.gen_range(0..4)],
        _ => 0,
    };
    json!({"t": t, "w": w})
}
fn rand_docs(rng: &mut StdRng, tag: &str) -> Value {
    let k = rng.gen_range(0..3);
    json!((0..k).map(|i| format!("{tag} doc{i}")).collect::<Vec<_>>())
}
fn rand_field(rng: &mut StdRng, n: usize, nested: bool, tag: &str, named: bool) -> Value {
    json!({
        "name": if named { json!([format!("{tag}_nm")]) } else { json!([]) },
        "ty": rand_sp(rng, n, nested),
        "tn": if rng.gen_bool(0.5) { json!([format!("{tag}_Ty")]) } else { json!([]) },
        "docs": rand_docs(rng, tag),
    })
}
fn rand_fields(rng: &mut StdRng, n: usize, nested: bool, tag: &str) -> Value {
    let k = rng.gen_range(0..4);
    let named = rng.gen_bool(0.5);
    json!((0..k).map(|i| rand_field(rng, n, nested, &format!("{tag}f{i}"), named)).collect::<Vec<_>>())
}
fn rand_info(rng: &mut StdRng, t: usize, n: usize, nested: bool) -> Value {
    let tag = format!("n{t}");
    let def = match rng.gen_range(0..10) {
        0 | 1 => json!({"tag": "composite", "fields": rand_fields(rng, n, nested, &tag)}),
        2 | 3 => {
            let k = rng.gen_range(0..4);
            json!({"tag": "variant", "variants": (0..k).map(|i| json!({
                "name": format!("{tag}V{i}"), "fields": rand_fields(rng, n, nested, &format!("{tag}v{i}")),
                "index": rng.gen_range(0..256), "docs": rand_docs(rng, &format!("{tag}v{i}"))})).collect::<Vec<_>>()})
        }
        4 => json!({"tag": "sequence", "ty": rand_sp(rng, n, nested)}),
        5 => json!({"tag": "array", "len": rng.gen_range(0..0x7fff_ffffu32), "ty": rand_sp(rng, n, nested)}),
        6 => {
            let k = rng.gen_range(0..4);
            json!({"tag": "tuple", "tys": (0..k).map(|_| rand_sp(rng, n, nested)).collect::<Vec<_>>()})
        }
        7 => json!({"tag": "primitive", "prim": proj::PRIMS[rng.gen_range(0..15)].0}),
        8 => json!({"tag": "compact", "ty": rand_sp(rng, n, nested)}),
        _ => json!({"tag": "bitsequence", "store": rand_sp(rng, n, nested), "order": rand_sp(rng, n, nested)}),
    };
    let np = rng.gen_range(0..3);
    let params: Vec<Value> = (0..np)
        .map(|i| json!({"name": format!("P{i}"), "ty": if rng.gen_bool(0.7) { json!([rand_sp(rng, n, nested)]) } else { json!([]) }}))
        .collect();
    let path: Vec<String> = if rng.gen_bool(0.85) { vec!["m".into(), format!("N{t}")] } else { vec![] };
    json!({"path": path, "params": params, "def": def, "docs": rand_docs(rng, &tag)})
}

fn record(seed: u64, count: usize, nested: bool, path: &str) {
    let mut rng = StdRng::seed_from_u64(seed);
    let mut out = Out::create(path);
    for _ in 0..count {
        let n = rng.gen_range(1..=uni::MAX_NODES);
        let mut info: Vec<Value> = (0..n).map(|t| rand_info(&mut rng, t, n, nested)).collect();
        // distinct identities may have IDENTICAL definitions (same-named local types, generics differing only
        // in a skipped parameter): the registry keys on identity, never on the definition
        for t in 1..n {
            if rng.gen_bool(0.15) {
                let src = rng.gen_range(0..t);
                info[t] = info[src].clone();
            }
        }
        info.push(uni::phantom_info());
        let info = json!(info);
        let hl = rng.gen_range(1..=6);
        let hist: Vec<Value> = (0..hl)
            .map(|i| match rng.gen_range(0..10) {
                0..=6 => json!(["one", rand_sp(&mut rng, n, nested)]),
                7 => json!(["many", (0..rng.gen_range(0..4)).map(|_| rand_sp(&mut rng, n, nested)).collect::<Vec<_>>()]),
                _ => json!(["fields", (0..rng.gen_range(0..3)).map(|k| rand_field(&mut rng, n, nested, &format!("h{i}f{k}"), true)).collect::<Vec<_>>()]),
            })
            .collect();
        out.put(&json!({"ev": "Universe", "info": info}));
        out.flush();
        eprintln!("@{}", json!({"info": info, "hist": hist}));
        let r = match run_history(&info, &hist) {
            Ok(r) => r,
            Err(p) => {
                out.put(&json!({"ev": "Panic", "msg": p, "hist": hist}));
                continue;
            }
        };
        for (i, h) in hist.iter().enumerate() {
            for e in &r.evals[i] {
                out.put(e);
            }
            let ev = match h[0].as_str().unwrap() {
                "one" => json!({"ev": "Register", "sp": h[1], "ret": r.rets[i][1], "types": r.snaps[i]}),
                "many" => json!({"ev": "RegisterMany", "sps": h[1], "ret": r.rets[i][1], "types": r.snaps[i]}),
                _ => json!({"ev": "MapFields", "items": h[1], "ret": r.rets[i][1], "types": r.snaps[i]}),
            };
            out.put(&ev);
        }
        let len = r.fin.types.len() as u32;
        let res: Vec<Value> = (0..len + 2)
            .map(|i| json!([i, r.fin.resolve(i).map(|t| proj::body(Mode::Plain, t)).into_iter().collect::<Vec<_>>()]))
            .collect();
        out.put(&json!({"ev": "Final", "types": proj::registry(Mode::Plain, &r.fin), "res": res}));
        // C01, fourth producer: decoding the library's own output
        {
            use scale::Decode;
            let bytes = r.fin.encode();
            let dec = match PortableRegistry::decode(&mut &bytes[..]) {
                Ok(d) => json!({"ok": [proj::registry(Mode::Plain, &d)]}),
                Err(e) => json!({"err": e.to_string()}),
            };
            out.put(&json!({"ev": "Decoded", "res": dec}));
        }
        // X02 (extension): the entries fed, in order, to the run-time builder
        {
            let mut b = scale_info::PortableRegistryBuilder::new();
            let ids: Vec<u32> = r.fin.types.iter().map(|pt| b.register_type(pt.ty.clone())).collect();
            out.put(&json!({"ev": "Rebuild", "types": proj::registry(Mode::Plain, &r.fin), "ids": ids, "rebuilt": proj::registry(Mode::Plain, &b.finish())}));
        }
        // C11(ii): replay the same history in a fresh registry -> byte-identical encoding
        if let Ok(r2) = run_history(&info, &hist) {
            out.put(&json!({"ev": "Replay", "a": r.fin.encode(), "b": r2.fin.encode()}));
        }
        // C11(iii): the same root set in another order -> equal up to renaming of ids
        let roots: Vec<Value> = hist
            .iter()
            .flat_map(|h| match h[0].as_str().unwrap() {
                "one" => vec![h[1].clone()],
                "many" => h[1].as_array().unwrap().clone(),
                _ => h[1].as_array().unwrap().iter().map(|f| f["ty"].clone()).collect(),
            })
            .collect();
        if roots.is_empty() {
            continue;
        }
        let h1: Vec<Value> = roots.iter().map(|s| json!(["one", s])).collect();
        let mut h2 = h1.clone();
        h2.shuffle(&mut rng);
        if let (Ok(a), Ok(b)) = (run_history(&info, &h1), run_history(&info, &h2)) {
            let pair = |h: &[Value], r: &Run| h.iter().zip(r.rets.iter()).map(|(s, x)| json!([s[1], x[1]])).collect::<Vec<_>>();
            out.put(&json!({"ev": "Perm", "roots1": pair(&h1, &a), "types1": proj::registry(Mode::Plain, &a.fin),
                            "roots2": pair(&h2, &b), "types2": proj::registry(Mode::Plain, &b.fin)}));
        }
    }
    out.flush();
}

fn main() {
    let a: Vec<String> = std::env::args().collect();
    vh::quiet_panics();
    // deep recursion of the code under test on cyclic universes must not take the harness down silently
    let h = std::thread::Builder::new().stack_size(256 << 20).spawn(move || match a[1].as_str() {
        "replay" => replay(&a[2], &a[3]),
        "record" => record(a[2].parse().unwrap(), a[3].parse().unwrap(), a[4] == "1", &a[5]),
        _ => panic!("usage"),
    });
    h.unwrap().join().unwrap();
}
