//! C08 / C19 / C14(JSON) conformance against specs/JsonForm.tla and specs/JsonSchema.tla.
//!   json shape <cases> <mismatches> <docs>   TLC registries + documented JSON -> real to_value/from_value; real documents out
//!   json fault <cases> <violations>          TLC-faulted documents -> real from_value under catch_unwind
//!   json record <seed> <n> <out>             random registries -> ToJson / FromJson trace (+ Doc events)
//!   json fuzz <seed> <n> <violations>        random structural mutations of real documents -> from_value
use rand::{rngs::StdRng, Rng, SeedableRng};
use scale_info::PortableRegistry;
use serde_json::{json, Value};
use vh::gen::rand_wide_entry;
use vh::{guarded, jv, proj, proj::Mode, read_ndjson, Out};

fn shape(cases: &str, outp: &str, docsp: &str) {
    let mut out = Out::create(outp);
    let mut docs = Out::create(docsp);
    let (mut n, mut bad) = (0u64, 0u64);
    for (ci, c) in read_ndjson(cases).iter().enumerate() {
        n += 1;
        let reg = proj::un_registry(&c["reg"]);
        let want = jv::from_jv(&c["json"]);
        let got = serde_json::to_value(&reg).unwrap();
        let mut mism: Vec<String> = vec![];
        if got != want {
            mism.push(format!("to_value differs from the documented shape: got {got} expected {want}"));
        }
        match serde_json::from_value::<PortableRegistry>(want.clone()) {
            Ok(r) if r == reg => {}
            Ok(_) => mism.push("from_value(documented JSON) is a different registry".into()),
            Err(e) => mism.push(format!("from_value(documented JSON) failed: {e}")),
        }
        match serde_json::from_value::<PortableRegistry>(got.clone()) {
            Ok(r) if r == reg => {}
            Ok(_) => mism.push("from_value(to_value(r)) != r".into()),
            Err(e) => mism.push(format!("from_value(to_value(r)) failed: {e}")),
        }
        // through text as well: the JSON form is a text format
        let text = serde_json::to_string(&reg).unwrap();
        match serde_json::from_str::<PortableRegistry>(&text) {
            Ok(r) if r == reg => {}
            _ => mism.push("from_str(to_string(r)) != r".into()),
        }
        docs.put(&json!({"ev": "Doc", "d": jv::to_jv(&got)}));
        if !mism.is_empty() {
            bad += 1;
            out.put(&json!({"case": ci, "input": c, "mismatch": mism}));
        }
    }
    out.flush();
    docs.flush();
    println!("{}", json!({"executed": n, "mismatching_cases": bad}));
}

fn try_from(v: Value) -> Value {
    match guarded(move || serde_json::from_value::<PortableRegistry>(v)) {
        Err(p) => json!({"panic": p}),
        Ok(Err(e)) => json!({"ok": false, "err": e.to_string()}),
        Ok(Ok(r)) => {
            // a registry that deserialises must serialise again and come back equal (no panic either way)
            let again = guarded(move || {
                let v2 = serde_json::to_value(&r).unwrap();
                serde_json::from_value::<PortableRegistry>(v2).map(|r2| r2 == r).unwrap_or(false)
            });
            match again {
                Ok(true) => json!({"ok": true}),
                Ok(false) => json!({"ok": true, "unstable": true}),
                Err(p) => json!({"panic": p}),
            }
        }
    }
}

fn fault(cases: &str, outp: &str) {
    let mut out = Out::create(outp);
    let (mut n, mut viol, mut oks) = (0u64, 0u64, 0u64);
    for (ci, c) in read_ndjson(cases).iter().enumerate() {
        n += 1;
        eprintln!("@{ci}");
        let v = jv::from_jv(&c["json"]);
        let r = try_from(v);
        if r["ok"] == true {
            oks += 1;
        }
        if r.get("panic").is_some() {
            viol += 1;
            out.put(&json!({"case": ci, "input": c, "verdict": r, "mismatch": [{"aspect": "c14", "msg": format!("from_value panicked: {}", r["panic"])}]}));
        }
    }
    out.flush();
    println!("{}", json!({"executed": n, "violations": viol, "deserialised_ok": oks}));
}

fn record(seed: u64, count: usize, path: &str) {
    let mut rng = StdRng::seed_from_u64(seed);
    let mut out = Out::create(path);
    for _ in 0..count {
        let n = [0, 1, 1, 2, 3, 5][rng.gen_range(0..6)];
        let rv = json!((0..n).map(|_| rand_wide_entry(&mut rng)).collect::<Vec<_>>());
        let reg = proj::un_registry(&rv);
        let v = serde_json::to_value(&reg).unwrap();
        out.put(&json!({"ev": "ToJson", "reg": rv, "json": jv::to_jv(&v)}));
        let text = serde_json::to_string(&reg).unwrap();
        let res = match serde_json::from_str::<PortableRegistry>(&text) {
            Ok(r) => json!({"ok": [proj::registry(Mode::Wide, &r)]}),
            Err(e) => json!({"err": e.to_string()}),
        };
        out.put(&json!({"ev": "FromJson", "json": jv::to_jv(&v), "res": res}));
        out.put(&json!({"ev": "Doc", "d": jv::to_jv(&v)}));
    }
    // SIZE boundaries of every list of the data model: an enum that uses all 256 indices, dozens of members,
    // parameters, doc lines, path segments and entries (nothing in the format limits a list)
    for reg in big_registries() {
        let rv = proj::registry(Mode::Wide, &reg);
        let v = serde_json::to_value(&reg).unwrap();
        out.put(&json!({"ev": "ToJson", "reg": rv, "json": jv::to_jv(&v)}));
        let text = serde_json::to_string(&reg).unwrap();
        let res = match serde_json::from_str::<PortableRegistry>(&text) {
            Ok(r) => json!({"ok": [proj::registry(Mode::Wide, &r)]}),
            Err(e) => json!({"err": e.to_string()}),
        };
        out.put(&json!({"ev": "FromJson", "json": jv::to_jv(&v), "res": res}));
        out.put(&json!({"ev": "Doc", "d": jv::to_jv(&v)}));
    }
    out.flush();
}
fn big_registries() -> Vec<PortableRegistry> {
    use scale_info::{form::PortableForm, Field, Path, PortableType, Type, TypeDefComposite, TypeDefPrimitive, TypeDefTuple, TypeDefVariant, TypeParameter, Variant};
    let s = |x: &str| x.to_string();
    let prim = || PortableType::new(0, Type::new(Path::from_segments_unchecked(Vec::<String>::new()), vec![], TypeDefPrimitive::U8, vec![]));
    let f = |n: usize| Field::<PortableForm>::new(Some(format!("f{n}")), 0.into(), None, vec![]);
    let path = |n: &str| Path::from_segments_unchecked(vec![s("big"), s(n)]);
    let mut out = vec![];
    // every variant index 0..=255 in use, one variant with a payload
    let vs: Vec<Variant<PortableForm>> = (0..=255u32).map(|i| Variant::new(format!("V{i}"), if i == 200 { vec![f(0)] } else { vec![] }, i as u8, vec![])).collect();
    out.push(PortableRegistry { types: vec![prim(), PortableType::new(1, Type::new(path("Every"), vec![], TypeDefVariant::new(vs), vec![]))] });
    // 40 members / tuple elements / parameters / doc lines, 70 path segments
    out.push(PortableRegistry { types: vec![prim(), PortableType::new(1, Type::new(path("Wide"), (0..40).map(|i| TypeParameter::new_portable(format!("P{i}"), if i % 2 == 0 { Some(0.into()) } else { None })).collect::<Vec<_>>(),
        TypeDefComposite::new((0..40).map(f)), (0..40).map(|i| format!("line {i}")).collect()))] });
    out.push(PortableRegistry { types: vec![prim(), PortableType::new(1, Type::new(Path::from_segments_unchecked((0..70).map(|i| format!("m{i}")).collect::<Vec<_>>()), vec![],
        TypeDefTuple::new_portable((0..40).map(|_| 0.into())), vec![]))] });
    // 40 entries
    out.push(PortableRegistry { types: (0..40u32).map(|i| PortableType::new(i, Type::new(Path::from_segments_unchecked(Vec::<String>::new()), vec![], TypeDefTuple::new_portable((0..(i % 3)).map(|k| k.into())), vec![]))).collect() });
    out
}

fn paths(v: &Value, cur: &mut Vec<String>, out: &mut Vec<Vec<String>>) {
    out.push(cur.clone());
    match v {
        Value::Array(a) => {
            for (i, x) in a.iter().enumerate() {
                cur.push(i.to_string());
                paths(x, cur, out);
                cur.pop();
            }
        }
        Value::Object(o) => {
            for (k, x) in o {
                cur.push(k.clone());
                paths(x, cur, out);
                cur.pop();
            }
        }
        _ => {}
    }
}
fn at<'a>(v: &'a mut Value, p: &[String]) -> &'a mut Value {
    let mut c = v;
    for k in p {
        c = match c {
            Value::Array(a) => &mut a[k.parse::<usize>().unwrap()],
            Value::Object(o) => o.get_mut(k).unwrap(),
            _ => unreachable!(),
        }
    }
    c
}
fn fuzz(seed: u64, count: usize, outp: &str) {
    let mut rng = StdRng::seed_from_u64(seed);
    let mut out = Out::create(outp);
    let corpus: Vec<Value> = (0..16)
        .map(|i| serde_json::to_value(proj::un_registry(&json!((0..(1 + i % 4)).map(|_| rand_wide_entry(&mut rng)).collect::<Vec<_>>()))).unwrap())
        .collect();
    let repl = [json!(null), json!(-1), json!(4294967296u64), json!(1.5), json!("x"), json!([]), json!({}), json!(true),
        json!({"composite": {}, "variant": {}}), json!(256), json!([null]), json!({"unknown": 1}), json!(18446744073709551615u64), json!("u8"), json!({"primitive": "u512"})];
    let (mut n, mut viol, mut oks) = (0u64, 0u64, 0u64);
    for _ in 0..count {
        let mut v = corpus[rng.gen_range(0..corpus.len())].clone();
        for _ in 0..rng.gen_range(1..3) {
            let mut cur = vec![];
            paths(&v, &mut vec![], &mut cur);
            let p = cur[rng.gen_range(0..cur.len())].clone();
            match rng.gen_range(0..4) {
                0 => *at(&mut v, &p) = repl[rng.gen_range(0..repl.len())].clone(),
                1 if !p.is_empty() => {
                    let (last, parent) = p.split_last().unwrap();
                    match at(&mut v, parent) {
                        Value::Object(o) => { o.remove(last); }
                        Value::Array(a) => { a.remove(last.parse::<usize>().unwrap()); }
                        _ => {}
                    }
                }
                2 => {
                    if let Value::Object(o) = at(&mut v, &p) {
                        o.insert("extra".into(), repl[rng.gen_range(0..repl.len())].clone());
                    }
                }
                _ => {
                    if let Value::Object(o) = at(&mut v, &p) {
                        if let Some(k) = o.keys().next().cloned() {
                            let x = o.remove(&k).unwrap();
                            o.insert(format!("{k}X"), x);
                        }
                    }
                }
            }
        }
        n += 1;
        let r = try_from(v.clone());
        if r["ok"] == true {
            oks += 1;
        }
        if r.get("panic").is_some() {
            viol += 1;
            out.put(&json!({"input": {"json": jv::to_jv(&v)}, "verdict": r, "mismatch": [{"aspect": "c14", "msg": "from_value panicked"}]}));
        }
    }
    out.flush();
    println!("{}", json!({"executed": n, "violations": viol, "deserialised_ok": oks}));
}

fn main() {
    let a: Vec<String> = std::env::args().collect();
    vh::quiet_panics();
    match a[1].as_str() {
        "shape" => shape(&a[2], &a[3], &a[4]),
        "fault" => fault(&a[2], &a[3]),
        "record" => record(a[2].parse().unwrap(), a[3].parse().unwrap(), &a[4]),
        "fuzz" => fuzz(a[2].parse().unwrap(), a[3].parse().unwrap(), &a[4]),
        _ => panic!("usage"),
    }
}
