//! Writes the JSON Schema the real schemars derive generates for PortableRegistry, in the tagged
//! schema form of specs/JsonSchema.tla, as one `Schema` event (needs feature `schema`).
fn main() {
    #[cfg(feature = "schema")]
    {
        let s = schemars::schema_for!(scale_info::PortableRegistry);
        let v = serde_json::to_value(&s).unwrap();
        println!("{}", serde_json::json!({"ev": "Schema", "s": vh::jv::schema_to_jv(&v, false)}));
        if let Some(p) = std::env::args().nth(1) {
            std::fs::write(p, serde_json::to_string_pretty(&v).unwrap()).unwrap();
        }
    }
    #[cfg(not(feature = "schema"))]
    {
        eprintln!("built without feature `schema`");
        std::process::exit(2);
    }
}
