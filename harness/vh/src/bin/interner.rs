//! C12 conformance: Interner<T> / PortableRegistryBuilder against specs/Interner.tla.
//!   interner replay <transitions.ndjson> <verdicts.ndjson>   one real-code test per TLC transition
//!   interner record <seed> <n_walks> <len> <out.ndjson>      seeded random walks -> trace
use rand::{rngs::StdRng, Rng, SeedableRng};
use scale_info::{form::PortableForm, interner::Interner, PortableRegistryBuilder, Type, TypeDefPrimitive, TypeDefSequence, TypeDefTuple};
use serde_json::{json, Value};
use vh::{guarded, proj, read_ndjson, Out};

trait Val: Ord + Clone + std::panic::RefUnwindSafe + std::panic::UnwindSafe {
    fn of(name: &str) -> Self;
    fn name(&self) -> String;
}
fn idx(name: &str) -> u32 {
    // "a".."z" -> 0.., "v17" -> 17
    if let Some(r) = name.strip_prefix('v') {
        if let Ok(n) = r.parse::<u32>() {
            return n;
        }
    }
    (name.as_bytes()[0] - b'a') as u32
}
impl Val for String {
    fn of(n: &str) -> Self { n.to_string() }
    fn name(&self) -> String { self.clone() }
}
#[derive(PartialEq, Eq, PartialOrd, Ord, Clone)]
struct Rev(u8, String); // ordering unrelated to insertion order
impl Val for Rev {
    fn of(n: &str) -> Self { Rev(255 - (idx(n) as u8).wrapping_mul(37), n.to_string()) }
    fn name(&self) -> String { self.1.clone() }
}
/// Universe selector for Type-valued elements: false = structurally unrelated bodies, true = "near misses"
/// (one rich enum definition; each value differs from value 0 in exactly one leaf part).
static UNIVERSE: std::sync::atomic::AtomicUsize = std::sync::atomic::AtomicUsize::new(0);
/// 0: one body per definition kind; 1: near misses; 2: the kinds shifted, so that small alphabets reach the rest
fn set_universe(u: usize) { UNIVERSE.store(u, std::sync::atomic::Ordering::SeqCst) }
fn set_near(b: bool) { set_universe(b as usize) }

/// One leaf of a rich definition changed per value: any equality/ordering that ignores a part of
/// Type<PortableForm> conflates two of these.
fn near_of(n: &str) -> Type<PortableForm> {
    use scale_info::{Path, TypeParameter};
    let k = idx(n);
    let s = |x: &str| x.to_string();
    let mut path = vec![s("m"), s("E")];
    let mut pname = s("T");
    let mut pty: Option<u32> = Some(1);
    let mut tdocs = vec![s("d")];
    let (mut an, mut ai, mut adocs) = (s("A"), 0u8, vec![s("a")]);
    let (mut fname, mut fty, mut ftn, mut fdocs) = (Some(s("x")), 1u32, Some(s("X")), vec![s("fx")]);
    let (mut bi, mut bdocs) = (1u8, vec![]);
    let mut swap = false;
    let mut composite = false;
    match k {
        0 => {}
        1 => adocs = vec![s("a2")],
        2 => adocs = vec![],
        3 => fdocs = vec![s("fy")],
        4 => ftn = Some(s("Y")),
        5 => ftn = None,
        6 => fname = Some(s("y")),
        7 => fty = 2,
        8 => ai = 7,
        9 => an = s("A2"),
        10 => tdocs = vec![s("d"), s("")],
        11 => pname = s("U"),
        12 => pty = None,
        13 => pty = Some(2),
        14 => path = vec![s("m"), s("F")],
        15 => bi = 2,
        16 => swap = true,
        17 => composite = true,
        18 => fdocs = vec![],
        19 => path = vec![s("E")],
        20 => adocs = vec![s("a"), s("a")],
        21 => fname = None,
        _ => bdocs = vec![s(n)],
    }
    let field = scale_info::Field::<PortableForm>::new(fname, fty.into(), ftn, fdocs);
    let tp = vec![TypeParameter::<PortableForm>::new_portable(pname, pty.map(Into::into))];
    let path = Path::from_segments_unchecked(path);
    if composite {
        return Type::new(path, tp, scale_info::TypeDefComposite::new(vec![field]), tdocs);
    }
    let va = scale_info::Variant::<PortableForm>::new(an, vec![field], ai, adocs);
    let vb = scale_info::Variant::<PortableForm>::new(s("B"), vec![], bi, bdocs);
    Type::new(path, tp, scale_info::TypeDefVariant::new(if swap { vec![vb, va] } else { vec![va, vb] }), tdocs)
}
/// A CROSS PRODUCT of a few leaves under one path (field name absent / "a" / "b"  x  field type 1 / 2 / 3  x  type
/// name absent / present): a comparison that picks its key from the PAIR (and so is not transitive) has cycles here.
fn cross_of(n: &str) -> Type<PortableForm> {
    let k = idx(n) as usize;
    // the first values are arranged so that small alphabets already contain (b,1) (-,2) (a,3) and its mirror images
    const ORDER: [(usize, usize); 9] = [(2, 0), (0, 1), (1, 2), (1, 0), (0, 2), (2, 1), (0, 0), (1, 1), (2, 2)];
    let (ni, ti) = ORDER[k % 9];
    let name = [None, Some("a".to_string()), Some("b".to_string())][ni].clone();
    let tn = if (k / 9) % 2 == 1 { Some("T".to_string()) } else { None };
    let docs = if k >= 18 { vec![n.to_string()] } else { vec![] };
    let field = scale_info::Field::<PortableForm>::new(name, ((ti + 1) as u32).into(), tn, vec![]);
    Type::new(scale_info::Path::from_segments_unchecked(vec!["m".to_string(), "Foo".to_string()]), vec![], scale_info::TypeDefComposite::new(vec![field]), docs)
}
/// Definitions with SEVERAL members under one path that agree on a prefix of their members and differ later (two
/// versions of one struct, of one enum): a comparison that stops at the first equal pair conflates them.
fn multi_of(n: &str) -> Type<PortableForm> {
    use scale_info::{Field, TypeDefComposite, TypeDefVariant, Variant};
    let k = idx(n) as usize;
    let f = |name: &str, ty: u32| Field::<PortableForm>::new(Some(name.to_string()), ty.into(), None, vec![]);
    let path = scale_info::Path::from_segments_unchecked(vec!["m".to_string(), "Multi".to_string()]);
    let docs = if k >= 10 { vec![n.to_string()] } else { vec![] };
    let composite = |fs: Vec<Field<PortableForm>>| Type::new(path.clone(), vec![], TypeDefComposite::new(fs), docs.clone());
    match k % 10 {
        0 => composite(vec![f("a", 1), f("b", 2)]),
        1 => composite(vec![f("a", 1), f("b", 3)]),                    // second member's type differs
        2 => composite(vec![f("a", 1), f("c", 2)]),                    // second member's name differs
        3 => composite(vec![f("a", 1), f("b", 2), f("c", 3)]),         // one member more
        4 => composite(vec![f("a", 1), f("b", 2), f("c", 4)]),         // third member differs
        5 => composite(vec![f("z", 1), f("b", 2)]),                    // first member differs
        6 | 7 | 8 => {
            let last = [Variant::new("B".to_string(), vec![f("x", 1)], 1, vec![]), Variant::new("B".to_string(), vec![f("x", 2)], 1, vec![]),
                        Variant::new("C".to_string(), vec![f("x", 1)], 1, vec![])][k % 10 - 6].clone();
            Type::new(path.clone(), vec![], TypeDefVariant::new(vec![Variant::new("A".to_string(), vec![], 0, vec![]), last]), docs.clone())
        }
        _ => Type::new(path.clone(), vec![], TypeDefTuple::<PortableForm>::new_portable(vec![1.into(), 2.into(), ((k / 10) as u32 + 3).into()]), docs.clone()),
    }
}
/// ANONYMOUS definitions (no path, no parameters, no docs) that differ in ONE component of the definition, for every
/// definition kind: nothing but the definition itself tells two of them apart, so an equality / ordering that is
/// wrong for one kind of definition conflates them. Universes 5..10 are windows of five (the first four hold the
/// near pairs), universe 11 is all thirty values.
fn anon_of(n: &str, u: usize) -> Type<PortableForm> {
    use scale_info::{Field, TypeDefArray, TypeDefBitSequence, TypeDefCompact, TypeDefComposite, TypeDefVariant, Variant};
    // (beyond the thirty anonymous values of universe 11 a name is told apart by a doc line, as in the other universes)
    // (so are the five slots of universe 11 that repeat a value of an earlier window)
    let kk = idx(n) as usize;
    let repeated = matches!(((kk / 5) % 6, kk % 5), (1, 3) | (3, 3) | (3, 4) | (4, 4) | (5, 4));
    let docs = if u == 11 && (kk >= 30 || repeated) { vec![n.to_string()] } else { vec![] };
    let anon = |d: scale_info::TypeDef<PortableForm>| Type::new(Default::default(), vec![], d, docs.clone());
    let tup = |v: &[u32]| anon(TypeDefTuple::<PortableForm>::new_portable(v.iter().map(|x| (*x).into())).into());
    let comp = |v: &[u32]| anon(TypeDefComposite::new(v.iter().map(|x| Field::<PortableForm>::new(None, (*x).into(), None, vec![]))).into());
    let var = |v: &[u8]| anon(TypeDefVariant::<PortableForm>::new(v.iter().map(|i| Variant::new("V".to_string(), vec![], *i, vec![]))).into());
    let k = idx(n) as usize;
    let (w, e) = if u == 11 { ((k / 5) % 6, k % 5) } else { (u - 5, k % 5) };
    match (w, e) {
        (0, 0) => anon(TypeDefCompact::<PortableForm>::new(1.into()).into()),
        (0, 1) => anon(TypeDefCompact::<PortableForm>::new(2.into()).into()),
        (0, 2) => anon(TypeDefSequence::<PortableForm>::new(1.into()).into()),
        (0, 3) => anon(TypeDefSequence::<PortableForm>::new(2.into()).into()),
        (0, _) | (1, 3) => anon(TypeDefPrimitive::U8.into()),
        (1, 0) => anon(TypeDefArray::<PortableForm>::new(1, 1.into()).into()),
        (1, 1) => anon(TypeDefArray::<PortableForm>::new(2, 1.into()).into()),
        (1, 2) => anon(TypeDefArray::<PortableForm>::new(1, 2.into()).into()),
        (1, _) => anon(TypeDefPrimitive::U16.into()),
        (2, 0) => tup(&[1, 2]),
        (2, 1) => tup(&[1, 3]),
        (2, 2) => tup(&[2, 2]),
        (2, 3) => tup(&[1]),
        (2, _) | (4, 4) => tup(&[]),
        (3, 0) => anon(TypeDefBitSequence::<PortableForm>::new_portable(1.into(), 2.into()).into()),
        (3, 1) => anon(TypeDefBitSequence::<PortableForm>::new_portable(1.into(), 3.into()).into()),
        (3, 2) => anon(TypeDefBitSequence::<PortableForm>::new_portable(2.into(), 2.into()).into()),
        (3, 3) => anon(TypeDefCompact::<PortableForm>::new(1.into()).into()),
        (3, _) => anon(TypeDefSequence::<PortableForm>::new(1.into()).into()),
        (4, 0) => comp(&[1]),
        (4, 1) => comp(&[2]),
        (4, 2) => comp(&[]),
        (4, _) | (5, 4) => var(&[]),
        (5, 0) => anon(TypeDefPrimitive::I256.into()),
        (5, 1) => anon(TypeDefPrimitive::U256.into()),
        (5, 2) => var(&[0]),
        (_, _) => var(&[1]),
    }
}
fn body_of(n: &str) -> Type<PortableForm> {
    use scale_info::{TypeDefArray, TypeDefBitSequence, TypeDefCompact, TypeDefVariant, Variant};
    let u = UNIVERSE.load(std::sync::atomic::Ordering::SeqCst);
    if u >= 5 {
        return anon_of(n, u);
    }
    if u == 1 {
        return near_of(n);
    }
    if u == 3 {
        return cross_of(n);
    }
    if u == 4 {
        return multi_of(n);
    }
    let k = idx(n);
    let kind = if u == 2 { (k + 4) % 8 } else { k % 8 };
    let docs = vec![format!("{n}")];
    // every definition kind, the multi-reference ones with DIFFERENT ids in their positions
    match kind {
        0 => Type::new(Default::default(), vec![], TypeDefPrimitive::U8, docs),
        1 => Type::new(Default::default(), vec![], TypeDefSequence::<PortableForm>::new(k.into()), docs),
        2 => Type::new(Default::default(), vec![], TypeDefTuple::<PortableForm>::new_portable(vec![k.into(), 0.into()]), docs),
        3 => Type::builder_portable()
            .path(scale_info::Path::from_segments_unchecked(vec![n.to_string()]))
            .composite(scale_info::build::Fields::named().field_portable(|f| f.name("x".into()).ty(k))),
        4 => Type::new(Default::default(), vec![], TypeDefArray::<PortableForm>::new(k + 1, k.into()), docs),
        5 => Type::new(Default::default(), vec![], TypeDefCompact::<PortableForm>::new(k.into()), docs),
        6 => Type::new(Default::default(), vec![], TypeDefBitSequence::<PortableForm>::new_portable(k.into(), (k + 1).into()), docs),
        _ => Type::new(scale_info::Path::from_segments_unchecked(vec![n.to_string()]), vec![],
                       TypeDefVariant::<PortableForm>::new(vec![Variant::new("V".to_string(), vec![], (k % 256) as u8, vec![])]), docs),
    }
}
#[derive(PartialEq, Eq, PartialOrd, Ord, Clone)]
struct Body(Type<PortableForm>, String);
impl Val for Body {
    fn of(n: &str) -> Self { Body(body_of(n), n.to_string()) }
    fn name(&self) -> String { self.1.clone() }
}

const DONOR: usize = 128;
fn donor<T: Val>() -> Interner<T> {
    let mut d = Interner::new();
    for i in 0..DONOR {
        d.intern_or_get(T::of(&format!("v{}", 1000 + i)));
    }
    d
}

/// Apply one op of the interner API; return the observable result in the shape of the spec's `ret`.
fn apply_interner<T: Val>(it: &mut Interner<T>, don: &Interner<T>, op: &str, arg: &Value) -> Value {
    match op {
        "intern" => {
            let v = T::of(arg.as_str().unwrap());
            let (ins, sym) = it.intern_or_get(v);
            json!(["intern", arg, ins, sym.into_untracked().id])
        }
        "get" => {
            let v = T::of(arg.as_str().unwrap());
            let r = it.get(&v).map(|s| s.into_untracked().id);
            json!(["get", arg, r.into_iter().collect::<Vec<_>>()])
        }
        "resolve" => {
            let i = arg.as_u64().unwrap() as usize;
            // a Symbol can only be obtained from an interner: take the i-th symbol of a large donor
            let key = don.elements()[i].clone();
            if don.get(&key).map(|s| s.into_untracked().id as usize) != Some(i) {
                // the donor's own `get` misbehaves: report as the observable result
                return json!(["resolve", i, ["?donor-get-returned-a-wrong-symbol"]]);
            }
            let sym = don.get(&key).unwrap();
            let r = it.resolve(sym).map(|t| t.name());
            json!(["resolve", i, r.into_iter().collect::<Vec<_>>()])
        }
        "elements" => json!(["elements", it.elements().iter().map(|t| t.name()).collect::<Vec<_>>()]),
        _ => panic!("op {op}"),
    }
}

fn name_of_body(t: &Type<PortableForm>, names: &[String]) -> String {
    names.iter().find(|n| &body_of(n) == t).cloned().unwrap_or_else(|| "?".into())
}
fn apply_builder(b: &mut PortableRegistryBuilder, names: &[String], op: &str, arg: &Value) -> Value {
    match op {
        "register" => {
            let id = b.register_type(body_of(arg.as_str().unwrap()));
            json!(["register", arg, id])
        }
        "next_type_id" => json!(["next_type_id", b.next_type_id()]),
        "bget" => {
            let i = arg.as_u64().unwrap() as u32;
            let r = b.get(i).map(|t| name_of_body(t, names));
            json!(["bget", i, r.into_iter().collect::<Vec<_>>()])
        }
        "finish" => {
            let r = b.finish();
            json!(["finish", r.types.iter().map(|pt| json!([pt.id, name_of_body(&pt.ty, names)])).collect::<Vec<_>>()])
        }
        _ => panic!("op {op}"),
    }
}

fn is_builder_op(op: &str) -> bool {
    matches!(op, "register" | "next_type_id" | "bget" | "finish")
}

fn replay_interner<T: Val>(kind: &str, i: usize, t: &Value, out: &mut Out, bad: &mut u64, n: &mut u64) {
    let from: Vec<String> = t["from"].as_array().unwrap().iter().map(|x| x.as_str().unwrap().to_string()).collect();
    let ret = t["ret"].as_array().unwrap();
    let op = ret[0].as_str().unwrap();
    if is_builder_op(op) {
        return;
    }
    let arg = ret.get(1).cloned().unwrap_or(Value::Null);
    let from2 = from.clone();
    let opn = op.to_string();
    let res = guarded(move || {
        let don = donor::<T>();
        let mut it = Interner::<T>::new();
        for v in &from2 {
            it.intern_or_get(T::of(v));
        }
        let got = apply_interner(&mut it, &don, &opn, &arg);
        let after: Vec<String> = it.elements().iter().map(|t| t.name()).collect();
        (got, after)
    });
    *n += 1;
    let ok = match &res {
        Ok((got, after)) => got == &t["ret"] && json!(after) == t["to"],
        Err(_) => false,
    };
    if !ok {
        *bad += 1;
        out.put(&json!({"case": i, "kind": kind, "trans": t, "got": match res { Ok((g, a)) => json!({"ret": g, "to": a}), Err(p) => json!({"panic": p}) }}));
    }
}

fn replay_builder(i: usize, t: &Value, out: &mut Out, bad: &mut u64, n: &mut u64) {
    let from: Vec<String> = t["from"].as_array().unwrap().iter().map(|x| x.as_str().unwrap().to_string()).collect();
    let ret = t["ret"].as_array().unwrap();
    let op = ret[0].as_str().unwrap().to_string();
    if !is_builder_op(&op) {
        return;
    }
    let arg = ret.get(1).cloned().unwrap_or(Value::Null);
    let mut names: Vec<String> = ["a", "b", "c", "d", "e", "f"].iter().map(|s| s.to_string()).collect();
    names.extend(from.iter().cloned());
    let from2 = from.clone();
    let res = guarded(move || {
        let mut b = PortableRegistryBuilder::new();
        for v in &from2 {
            b.register_type(body_of(v));
        }
        let got = apply_builder(&mut b, &names, &op, &arg);
        let after = b.finish();
        let after: Vec<String> = after.types.iter().map(|pt| name_of_body(&pt.ty, &names)).collect();
        (got, after)
    });
    *n += 1;
    let ok = match &res {
        Ok((got, after)) => got == &t["ret"] && json!(after) == t["to"],
        Err(_) => false,
    };
    if !ok {
        *bad += 1;
        out.put(&json!({"case": i, "kind": "builder", "trans": t, "got": match res { Ok((g, a)) => json!({"ret": g, "to": a}), Err(p) => json!({"panic": p}) }}));
    }
}

fn record(seed: u64, walks: usize, len: usize, path: &str) {
    let mut rng = StdRng::seed_from_u64(seed);
    let mut out = Out::create(path);
    let names: Vec<String> = (0..96).map(|i| format!("v{i}")).collect();
    for w in 0..walks {
        let kind = ["string", "rev", "body", "builder", "body", "builder", "body", "builder", "body", "builder", "body", "builder"][w % 12];
        set_universe(if w % 12 >= 10 { 11 } else if w % 12 >= 8 { 4 } else if w % 12 >= 6 { 3 } else if w % 12 >= 4 { 1 } else { 0 }); // Type-valued walks alternate between one body per kind and near misses
        out.put(&json!({"ev": "reset", "kind": kind}));
        let don_s = donor::<String>();
        let don_r = donor::<Rev>();
        let don_b = donor::<Body>();
        let mut is = Interner::<String>::new();
        let mut ir = Interner::<Rev>::new();
        let mut ib = Interner::<Body>::new();
        let mut bld = PortableRegistryBuilder::new();
        // skew towards a small working set so that hits are common
        // ... and in a third of the walks a large one, so that the table grows well past small-table sizes
        let k = if rng.gen_bool(0.3) { rng.gen_range(33..=names.len()) } else { rng.gen_range(2..=24) };
        for _ in 0..len {
            let v = json!(names[rng.gen_range(0..k)]);
            let i = json!(rng.gen_range(0..(k + 2)));
            let ret = if kind == "builder" {
                let (op, arg) = match rng.gen_range(0..10) {
                    0..=4 => ("register", v),
                    5 => ("next_type_id", Value::Null),
                    6 | 7 => ("bget", i),
                    _ => ("finish", Value::Null),
                };
                apply_builder(&mut bld, &names, op, &arg)
            } else {
                let (op, arg) = match rng.gen_range(0..10) {
                    0..=4 => ("intern", v),
                    5 | 6 => ("get", v),
                    7 | 8 => ("resolve", i),
                    _ => ("elements", Value::Null),
                };
                match kind {
                    "string" => apply_interner(&mut is, &don_s, op, &arg),
                    "rev" => apply_interner(&mut ir, &don_r, op, &arg),
                    _ => apply_interner(&mut ib, &don_b, op, &arg),
                }
            };
            out.put(&json!({"ev": "call", "ret": ret}));
        }
    }
    out.flush();
}

/// C01, producer "runtime builder": TLC histories of register_type over bodies that mention ids
fn builder_histories(cases: &str, outp: &str) {
    use scale_info::{build::Fields, Path};
    let mut out = Out::create(outp);
    let (mut n, mut bad) = (0u64, 0u64);
    for (ci, c) in read_ndjson(cases).iter().enumerate() {
        n += 1;
        let ops = c["ops"].as_array().unwrap().clone();
        let res = guarded(move || {
            let mut b = PortableRegistryBuilder::new();
            for op in &ops {
                match op["k"].as_str().unwrap() {
                    "prim" => { b.register_type(Type::new(Default::default(), vec![], TypeDefPrimitive::U8, vec![])); }
                    "seq" => { b.register_type(Type::new(Default::default(), vec![], TypeDefSequence::<PortableForm>::new((op["i"].as_u64().unwrap() as u32).into()), vec![])); }
                    "selfref" => {
                        let next = b.next_type_id();
                        b.register_type(Type::builder_portable().path(Path::from_segments_unchecked(vec!["m".to_string(), "S".to_string()]))
                            .composite(Fields::named().field_portable(|f| f.name("next".into()).ty(next))));
                    }
                    k => panic!("op {k}"),
                }
            }
            b.finish()
        });
        let mut mism: Vec<String> = vec![];
        match res {
            Err(p) => mism.push(format!("panic: {p}")),
            Ok(reg) => {
                let got = proj::registry(proj::Mode::Plain, &reg);
                let len = reg.types.len() as u64;
                let dense = reg.types.iter().enumerate().all(|(i, t)| t.id == i as u32 && reg.resolve(i as u32) == Some(&t.ty));
                let mut closed = true;
                for e in got.as_array().unwrap() {
                    let d = &e["def"];
                    let mut chk = |v: &Value| closed &= v.as_u64().unwrap() < len;
                    match d["tag"].as_str().unwrap() {
                        "sequence" => chk(&d["ty"]),
                        "composite" => d["fields"].as_array().unwrap().iter().for_each(|f| chk(&f["ty"])),
                        _ => {}
                    }
                }
                if !dense { mism.push("finish() is not dense".into()); }
                if closed != c["disciplined"].as_bool().unwrap() { mism.push(format!("finish() closed={closed} but the history is disciplined={}", c["disciplined"])); }
                if got != c["finish"] { mism.push("finish() differs from the specification's".into()); }
            }
        }
        if !mism.is_empty() {
            bad += 1;
            out.put(&json!({"case": ci, "input": c, "mismatch": mism}));
        }
    }
    out.flush();
    println!("{}", json!({"executed": n, "mismatching_cases": bad}));
}

fn main() {
    let a: Vec<String> = std::env::args().collect();
    vh::quiet_panics();
    match a[1].as_str() {
        "replay" => {
            let ts = read_ndjson(&a[2]);
            let mut out = Out::create(&a[3]);
            let (mut bad, mut n) = (0u64, 0u64);
            for (i, t) in ts.iter().enumerate() {
                replay_interner::<String>("string", i, t, &mut out, &mut bad, &mut n);
                replay_interner::<Rev>("rev", i, t, &mut out, &mut bad, &mut n);
                for u in [0usize, 1, 2, 3, 4, 5, 6, 7, 8, 9, 10] {
                    set_universe(u);
                    replay_interner::<Body>(["body", "body/near", "body/kinds", "body/cross", "body/multi", "body/anon0", "body/anon1", "body/anon2", "body/anon3", "body/anon4", "body/anon5"][u], i, t, &mut out, &mut bad, &mut n);
                    replay_builder(i, t, &mut out, &mut bad, &mut n);
                }
                set_universe(0);
            }
            out.flush();
            println!("{}", json!({"executed": n, "mismatches": bad}));
        }
        "record" => record(a[2].parse().unwrap(), a[3].parse().unwrap(), a[4].parse().unwrap(), &a[5]),
        "builder" => builder_histories(&a[2], &a[3]),
        _ => panic!("usage"),
    }
    let _ = proj::Mode::Plain;
}
