//! C18 conformance against specs/Paths.tla.
//!   paths replay <cases> <mismatches>    TLC-enumerated class strings / segment lists / tables -> real Path API
//!   paths record <seed> <n> <out>        random strings (arbitrary unicode) -> trace of real results
use rand::{rngs::StdRng, Rng, SeedableRng};
use scale_info::{form::PortableForm, Path, PathError};
use serde_json::{json, Value};
use vh::{guarded, leak, read_ndjson, Out};

const L: [char; 5] = ['a', 'Z', 'q', 'B', 'x'];
const D: [char; 3] = ['0', '7', '9'];
const O: [char; 8] = ['$', '-', ' ', '.', '\'', '<', '!', '\u{7f}'];
const U: [char; 5] = ['é', 'ß', '名', '\u{1F600}', 'а' /* cyrillic a */];

/// EVERY member of a class (ASCII completely; a spread of non-ASCII letters, numerics, marks, format characters)
fn members(class: &str) -> Vec<char> {
    match class {
        "L" => ('a'..='z').chain('A'..='Z').filter(|c| *c != 'r').collect(),
        "D" => ('0'..='9').collect(),
        "O" => (0u8..128).map(|b| b as char).filter(|c| class_of(*c) == "O").collect(),
        "U" => vec!['é', 'ß', '名', '\u{1F600}', 'а', '²', '½', '٣', '１', 'Ⅷ', '\u{301}', '\u{200d}', '\u{feff}', '·', '\u{80}', '\u{ff}', 'ǅ', 'ª', '\u{10ffff}'],
        _ => vec![],
    }
}
fn concretize(cls: &Value, rot: usize) -> String {
    cls.as_array()
        .unwrap()
        .iter()
        .enumerate()
        .map(|(i, c)| match c[0].as_str().unwrap() {
            "L" => L[(i + rot) % L.len()],
            "r" => 'r',
            "_" => '_',
            "D" => D[(i + rot) % D.len()],
            "#" => '#',
            ":" => ':',
            "O" => O[(i + rot) % O.len()],
            "U" => U[(i + rot) % U.len()],
            x => panic!("class {x}"),
        })
        .collect()
}
/// [[class, code point], ...]
fn classify(s: &str) -> Vec<Value> {
    s.chars()
        .map(|c| json!([class_of(c), c as u32]))
        .collect()
}
/// drop the codes: [[class, _], ...] (at any nesting depth) -> [class, ...]
fn classes_only(v: &Value) -> Value {
    match v {
        Value::Array(a) if a.len() == 2 && a[0].is_string() && a[1].is_number() => a[0].clone(),
        Value::Array(a) => Value::Array(a.iter().map(classes_only).collect()),
        Value::Object(o) => Value::Object(o.iter().map(|(k, x)| (k.clone(), classes_only(x))).collect()),
        x => x.clone(),
    }
}
fn class_of(c: char) -> &'static str {
        match c {
            'r' => "r",
            'a'..='z' | 'A'..='Z' => "L",
            '_' => "_",
            '0'..='9' => "D",
            '#' => "#",
            ':' => ":",
            c if c.is_ascii() => "O",
            _ => "U",
        }
}
fn st(s: &str) -> &'static str {
    leak(s)
}

/// from_segments under catch_unwind: it must RETURN (a path or an error); a panic is an observable of its own
fn from_segments_guarded(ss: Vec<&'static str>, cls: &dyn Fn(&str) -> Value) -> Value {
    match guarded(move || Path::from_segments(ss)) {
        Ok(r) => res_from(r, cls),
        Err(_) => json!({"k": "panic"}),
    }
}
fn res_from(r: Result<Path, PathError>, cls: &dyn Fn(&str) -> Value) -> Value {
    match r {
        Ok(p) => json!({"k": "ok", "segs": p.segments.iter().map(|s| cls(s)).collect::<Vec<_>>()}),
        Err(PathError::MissingSegments) => json!({"k": "missing"}),
        Err(PathError::InvalidIdentifier { segment }) => json!({"k": "invalid", "at": segment}),
    }
}
/// Path::new* panic instead of returning an error: the observable is ok(segments) | panic
fn res_new(r: Result<Path, String>, cls: &dyn Fn(&str) -> Value) -> Value {
    match r {
        Ok(p) => json!({"k": "ok", "segs": p.segments.iter().map(|s| cls(s)).collect::<Vec<_>>()}),
        Err(_) => json!({"k": "panic"}),
    }
}
fn expect_new(e: &Value) -> Value {
    match e["k"].as_str().unwrap() {
        "ok" => e.clone(),
        "na" => e.clone(),
        _ => json!({"k": "panic"}),
    }
}

fn replay(cases: &str, outp: &str) {
    let mut out = Out::create(outp);
    let (mut n, mut bad, mut swept) = (0u64, 0u64, 0u64);
    for (ci, c) in read_ndjson(cases).iter().enumerate() {
        for rot in 0..3usize {
            n += 1;
            let mut mism: Vec<String> = vec![];
            if c["k"] == "ident" {
                let s = concretize(&c["s"], rot);
                let s1 = st(&s);
                let got = matches!(guarded(move || Path::from_segments([s1]).is_ok()), Ok(true));
                if got != c["ok"].as_bool().unwrap() {
                    mism.push(format!("from_segments([{s:?}]) ok={got} expected {}", c["ok"]));
                }
            } else {
                let segs: Vec<String> = c["segs"].as_array().unwrap().iter().map(|s| concretize(s, rot)).collect();
                let back = |s: &str| json!(classify(s));
                let tab: Vec<(&'static str, &'static str)> =
                    c["tab"].as_array().unwrap().iter().map(|kv| (st(&concretize(&kv[0], rot)), st(&concretize(&kv[1], rot)))).collect();
                let ss: Vec<&'static str> = segs.iter().map(|s| st(s)).collect();
                let got = from_segments_guarded(ss.clone(), &back);
                if classes_only(&got) != classes_only(&c["from"]) {
                    mism.push(format!("from_segments({segs:?}) = {got} expected {}", c["from"]));
                }
                if let Some((ident, ns)) = ss.split_last() {
                    let mp = st(&ns.join("::"));
                    let id = *ident;
                    let got = res_new(guarded(move || Path::new(id, mp)), &back);
                    if classes_only(&got) != classes_only(&expect_new(&c["new"])) {
                        mism.push(format!("new({id:?},{mp:?}) = {got} expected {}", c["new"]));
                    }
                    let t2 = tab.clone();
                    let got = res_new(guarded(move || Path::new_with_replace(id, mp, &t2)), &back);
                    // the exact result only for chain-free tables (C18 does not fix the application order of a
                    // table whose replacement text is a later search text; C09 does); validity always
                    // (a namespace segment that contains the separator splits into several segments of the module path)
                    let want_len = if mp.is_empty() { 1 } else { mp.split("::").count() + 1 };
                    let valid_ok = got["k"] != "ok" || (got["segs"].as_array().unwrap().len() == want_len
                        && got["segs"].as_array().unwrap().iter().all(|s| Path::from_segments([st(&concretize(s, 0))]).is_ok()));
                    if !valid_ok || (c["chainfree"] == true && classes_only(&got) != classes_only(&expect_new(&c["newr"]))) {
                        mism.push(format!("new_with_replace({id:?},{mp:?},{tab:?}) = {got} expected {}", c["newr"]));
                    }
                }
                let p: Path<PortableForm> = Path::from_segments_unchecked(segs.clone());
                let ident = p.ident().map(|s| back(&s)).into_iter().collect::<Vec<_>>();
                if classes_only(&json!(ident)) != classes_only(&c["ident"]) {
                    mism.push(format!("ident() = {:?} expected {}", p.ident(), c["ident"]));
                }
                let ns: Vec<Value> = p.namespace().iter().map(|s| back(s)).collect();
                if classes_only(&json!(ns)) != classes_only(&c["ns"]) {
                    mism.push(format!("namespace() = {:?} expected {}", p.namespace(), c["ns"]));
                }
                let disp = format!("{p}");
                if classes_only(&json!(classify(&disp))) != classes_only(&c["disp"]) {
                    mism.push(format!("display = {disp:?} expected classes {}", c["disp"]));
                }
            }
            if !mism.is_empty() {
                bad += 1;
                out.put(&json!({"case": ci, "rot": rot, "input": c, "mismatch": mism}));
            }
        }
        // the WHOLE class at every position of the short strings: the verdict depends on the class only, so every
        // member must get it (boundaries of the ASCII ranges, every digit, every control character, ...)
        if c["k"] == "ident" && c["s"].as_array().unwrap().len() <= 3 {
            let base: Vec<char> = concretize(&c["s"], 0).chars().collect();
            for (p, cl) in c["s"].as_array().unwrap().iter().enumerate() {
                for m in members(cl[0].as_str().unwrap()) {
                    let mut v = base.clone();
                    v[p] = m;
                    let s: String = v.into_iter().collect();
                    let s1 = st(&s);
                    swept += 1;
                    let got = matches!(guarded(move || Path::from_segments([s1]).is_ok()), Ok(true));
                    if got != c["ok"].as_bool().unwrap() {
                        bad += 1;
                        out.put(&json!({"case": ci, "rot": 0, "input": c, "mismatch": [format!("from_segments([{s:?}]) ok={got} expected {} (class sweep, position {p})", c["ok"])]}));
                    }
                }
            }
        }
    }
    out.flush();
    println!("{}", json!({"executed": n, "swept": swept, "mismatching_cases": bad}));
}

fn rand_string(rng: &mut StdRng) -> String {
    let len = [0, 1, 1, 2, 3, 4, 6, 9][rng.gen_range(0..8)];
    (0..len)
        .map(|i| match rng.gen_range(0..16) {
            0..=4 => (b'a' + rng.gen_range(0..26)) as char,
            5 => (b'A' + rng.gen_range(0..26)) as char,
            6 if i < 2 => 'r',
            7 if i < 3 => '#',
            8 => '_',
            9 | 10 => (b'0' + rng.gen_range(0..10)) as char,
            11 => ':',
            12 => rng.gen_range(0u8..128) as char,
            13 => char::from_u32(rng.gen_range(0x80..0x2000)).unwrap_or('é'),
            14 => char::from_u32(rng.gen_range(0x10000..0x10ffff)).unwrap_or('名'),
            _ => 'r',
        })
        .collect()
}

fn record(seed: u64, count: usize, path: &str) {
    let mut rng = StdRng::seed_from_u64(seed);
    let mut out = Out::create(path);
    let back = |s: &str| json!(classify(s));
    for _ in 0..count {
        let n = rng.gen_range(0..4);
        let segs: Vec<String> = (0..n).map(|_| rand_string(&mut rng)).collect();
        let ss: Vec<&'static str> = segs.iter().map(|s| st(s)).collect();
        let cl: Vec<Value> = segs.iter().map(|s| back(s)).collect();
        out.put(&json!({"ev": "FromSegments", "segs": cl, "res": from_segments_guarded(ss.clone(), &back)}));
        let ident = st(&rand_string(&mut rng));
        // module paths: join of random segments with "::", sometimes with stray colons
        let mut mp = (0..rng.gen_range(0..3)).map(|_| rand_string(&mut rng)).collect::<Vec<_>>().join("::");
        if rng.gen_bool(0.1) {
            mp.push(':');
        }
        let mp = st(&mp);
        out.put(&json!({"ev": "New", "ident": back(ident), "mp": back(mp), "res": res_new(guarded(move || Path::new(ident, mp)), &back)}));
        let tab: Vec<(&'static str, &'static str)> = (0..rng.gen_range(0..3))
            .map(|_| {
                let k = if rng.gen_bool(0.6) && !mp.is_empty() { st(mp.split("::").next().unwrap()) } else if rng.gen_bool(0.5) { ident } else { st(&rand_string(&mut rng)) };
                (k, st(&rand_string(&mut rng)))
            })
            .collect();
        let t2 = tab.clone();
        out.put(&json!({"ev": "NewWithReplace", "ident": back(ident), "mp": back(mp),
            "tab": tab.iter().map(|(k, v)| json!([back(k), back(v)])).collect::<Vec<_>>(),
            "res": res_new(guarded(move || Path::new_with_replace(ident, mp, &t2)), &back)}));
        let p: Path<PortableForm> = Path::from_segments_unchecked(segs.clone());
        out.put(&json!({"ev": "Access", "segs": segs.iter().map(|s| back(s)).collect::<Vec<_>>(),
            "ident": p.ident().map(|s| back(&s)).into_iter().collect::<Vec<_>>(),
            "ns": p.namespace().iter().map(|s| back(s)).collect::<Vec<_>>(), "disp": back(&format!("{p}"))}));
    }
    out.flush();
}

fn main() {
    let a: Vec<String> = std::env::args().collect();
    vh::quiet_panics();
    match a[1].as_str() {
        "replay" => replay(&a[2], &a[3]),
        "record" => record(a[2].parse().unwrap(), a[3].parse().unwrap(), &a[4]),
        _ => panic!("usage"),
    }
}
