//! C10 (and C01 for retain) conformance against specs/Retain.tla.
//!   retain replay <cases> <mismatches>    TLC behaviours -> real retain, compare map and result
//!   retain record <seed> <n> <out>        random well-formed registries and filters -> trace
use rand::{rngs::StdRng, Rng, SeedableRng};
use serde_json::{json, Value};
use vh::{guarded, proj, proj::Mode, read_ndjson, Out};

/// The filter is a TOTAL predicate on u32: `keep` answers for the ids of the registry, `outside` for
/// every other number (a predicate like `|_| true` or `|i| i != k` accepts numbers that are no ids).
fn run_retain(old: &Value, keep: &[bool], outside: bool) -> Result<(Value, Value, Vec<u32>), String> {
    let mut reg = proj::un_registry(old);
    let keep = keep.to_vec();
    guarded(move || {
        let mut calls = vec![];
        let map = reg.retain(|i| {
            calls.push(i);
            keep.get(i as usize).copied().unwrap_or(outside)
        });
        let pairs: Vec<Value> = map.iter().map(|(k, v)| json!([k, v])).collect();
        (json!(pairs), proj::registry(Mode::Plain, &reg), calls)
    })
}

fn sorted_pairs(v: &Value) -> Vec<(u64, u64)> {
    let mut p: Vec<(u64, u64)> = v.as_array().unwrap().iter().map(|x| (x[0].as_u64().unwrap(), x[1].as_u64().unwrap())).collect();
    p.sort();
    p
}

fn refs_ok(new: &Value) -> bool {
    // dense + closed, computed on the projected real result
    let a = new.as_array().unwrap();
    let s = serde_json::to_string(new).unwrap();
    let _ = s;
    a.iter().enumerate().all(|(i, e)| e["id"].as_u64() == Some(i as u64)) && {
        let reg = proj::un_registry(new);
        let n = reg.types.len() as u32;
        let mut ok = true;
        for pt in &reg.types {
            let b = proj::body(Mode::Plain, &pt.ty);
            collect(&b, &mut |r| ok &= (r as u32) < n);
        }
        ok
    }
}
fn collect(e: &Value, f: &mut dyn FnMut(u64)) {
    for p in e["params"].as_array().unwrap() {
        if let Some(t) = p["ty"].as_array().unwrap().first() {
            f(t.as_u64().unwrap());
        }
    }
    let d = &e["def"];
    let mut fr = |fs: &Value, f: &mut dyn FnMut(u64)| {
        for x in fs.as_array().unwrap() {
            f(x["ty"].as_u64().unwrap());
        }
    };
    match d["tag"].as_str().unwrap() {
        "composite" => fr(&d["fields"], f),
        "variant" => {
            for v in d["variants"].as_array().unwrap() {
                fr(&v["fields"], f)
            }
        }
        "sequence" | "array" | "compact" => f(d["ty"].as_u64().unwrap()),
        "tuple" => d["tys"].as_array().unwrap().iter().for_each(|x| f(x.as_u64().unwrap())),
        "bitsequence" => {
            f(d["store"].as_u64().unwrap());
            f(d["order"].as_u64().unwrap())
        }
        _ => {}
    }
}

fn replay(cases: &str, outp: &str) {
    let mut out = Out::create(outp);
    let (mut n, mut bad) = (0u64, 0u64);
    for (ci, c) in vh::stream_ndjson(cases).enumerate() {
        let c = &c;
        n += 1;
        eprintln!("@{ci}");
        let keep: Vec<bool> = c["keep"].as_array().unwrap().iter().map(|b| b.as_bool().unwrap()).collect();
        let mut mism: Vec<(&str, String)> = vec![];
        let outs: Vec<bool> = match c.get("outside").and_then(|o| o.as_bool()) { Some(o) => vec![o], None => vec![false, true] };
        for outside in outs {
        match run_retain(&c["old"], &keep, outside) {
            Err(p) => mism.push(("c10", format!("panic (filter answers {outside} outside the ids): {p}"))),
            Ok((map, new, _calls)) => {
                if sorted_pairs(&map) != sorted_pairs(&c["map"]) {
                    mism.push(("c10", format!("returned map {map} expected {}", c["map"])));
                }
                if new != c["new"] {
                    mism.push(("c10", "retained registry differs from the specification's".into()));
                }
                if !refs_ok(&new) {
                    mism.push(("c01", "retained registry is not dense/closed".into()));
                }
            }
        }
        }
        if !mism.is_empty() {
            bad += 1;
            out.put(&json!({"case": ci, "input": c, "mismatch": mism.iter().map(|(a, m)| json!({"aspect": a, "msg": m})).collect::<Vec<_>>()}));
        }
    }
    out.flush();
    println!("{}", json!({"executed": n, "mismatching_cases": bad}));
}

pub fn rand_registry(rng: &mut StdRng, n: usize) -> Value {
    let id = |rng: &mut StdRng| rng.gen_range(0..n) as u32;
    let docs = |rng: &mut StdRng, t: &str| -> Value { json!((0..rng.gen_range(0..3)).map(|i| format!("{t}d{i}")).collect::<Vec<_>>()) };
    let fields = |rng: &mut StdRng, t: &str| -> Value {
        let named = rng.gen_bool(0.5);
        json!((0..rng.gen_range(0..4)).map(|i| json!({
            "name": if named { json!([format!("{t}f{i}")]) } else { json!([]) }, "ty": id(rng),
            "tn": if rng.gen_bool(0.5) { json!([format!("{t}T{i}")]) } else { json!([]) }, "docs": docs(rng, &format!("{t}f{i}"))})).collect::<Vec<_>>())
    };
    let entries: Vec<Value> = (0..n)
        .map(|i| {
            let t = format!("e{i}");
            let def = match rng.gen_range(0..10) {
                0 | 1 => json!({"tag": "composite", "fields": fields(rng, &t)}),
                2 | 3 => json!({"tag": "variant", "variants": (0..rng.gen_range(0..4)).map(|k| json!({
                    "name": format!("{t}V{k}"), "fields": fields(rng, &format!("{t}v{k}")), "index": rng.gen_range(0..256), "docs": docs(rng, &format!("{t}v{k}"))})).collect::<Vec<_>>()}),
                4 => json!({"tag": "sequence", "ty": id(rng)}),
                5 => {
                    let len = [0u32, 0, 1, 2, 255, rng.gen_range(0..0x7fff_ffffu32)][rng.gen_range(0..6)];
                    json!({"tag": "array", "len": len, "ty": id(rng)})
                }
                6 => json!({"tag": "tuple", "tys": (0..rng.gen_range(0..4)).map(|_| id(rng)).collect::<Vec<_>>()}),
                7 => json!({"tag": "primitive", "prim": proj::PRIMS[rng.gen_range(0..15)].0}),
                8 => json!({"tag": "compact", "ty": id(rng)}),
                _ => json!({"tag": "bitsequence", "store": id(rng), "order": id(rng)}),
            };
            let params: Vec<Value> = (0..rng.gen_range(0..3))
                .map(|k| json!({"name": format!("P{k}"), "ty": if rng.gen_bool(0.7) { json!([id(rng)]) } else { json!([]) }}))
                .collect();
            json!({"id": i, "path": if rng.gen_bool(0.8) { json!(["m", format!("E{i}")]) } else { json!([]) }, "params": params, "def": def, "docs": docs(rng, &t)})
        })
        .collect();
    json!(entries)
}

fn record(seed: u64, count: usize, path: &str) {
    let mut rng = StdRng::seed_from_u64(seed);
    let mut out = Out::create(path);
    for _ in 0..count {
        let n = rng.gen_range(0..=12);
        let old = rand_registry(&mut rng, n.max(1));
        let old = if n == 0 { json!([]) } else { old };
        let p = [0.0, 0.1, 0.3, 0.6, 1.0][rng.gen_range(0..5)];
        let keep: Vec<bool> = (0..n).map(|_| rng.gen_bool(p)).collect();
        let outside = rng.gen_bool(0.5);
        eprintln!("@{}", json!({"old": old, "keep": keep, "outside": outside}));
        let keep_ids: Vec<usize> = keep.iter().enumerate().filter(|(_, k)| **k).map(|(i, _)| i).collect();
        match run_retain(&old, &keep, outside) {
            Ok((map, new, calls)) => {
                // a second retain keeping everything must be the identity (spec growth: idempotence)
                let all = vec![true; new.as_array().unwrap().len()];
                let again = run_retain(&new, &all, true).map(|(m, r, _)| json!({"map": m, "new": r})).unwrap_or_else(|p| json!({"panic": p}));
                out.put(&json!({"ev": "Retain", "old": old, "keep": keep_ids, "outside": outside, "fcalls": calls, "map": map, "new": new, "again": again}));
            }
            Err(p) => out.put(&json!({"ev": "Retain", "old": old, "keep": keep_ids, "outside": outside, "panic": p})),
        }
    }
    out.flush();
}

fn main() {
    let a: Vec<String> = std::env::args().collect();
    vh::quiet_panics();
    let h = std::thread::Builder::new().stack_size(256 << 20).spawn(move || match a[1].as_str() {
        "replay" => replay(&a[2], &a[3]),
        "record" => record(a[2].parse().unwrap(), a[3].parse().unwrap(), &a[4]),
        _ => panic!("usage"),
    });
    h.unwrap().join().unwrap();
}
