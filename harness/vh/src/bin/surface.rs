//! X01 (extension, not a property verdict): the rest of the public surface against specs/Surface.tla.
//!   surface record <seed> <n> <out.ndjson>
#![allow(deprecated)]
use rand::{rngs::StdRng, Rng, SeedableRng};
use scale_info::{form::PortableForm, Field, Path, PortableRegistry, Type, TypeDef, TypeParameter, Variant};
use serde_json::{json, Value};
use vh::gen::rand_wide_entry;
use vh::{proj, proj::Mode, Out};

const M: Mode = Mode::Wide;
fn sts(v: &[String]) -> Value {
    Value::Array(v.iter().map(|s| proj::st(M, s)).collect())
}
fn opt(o: Option<&String>) -> Value {
    match o {
        Some(s) => json!([proj::st(M, s)]),
        None => json!([]),
    }
}
// the registry read through ACCESSORS only
fn g_field(f: &Field<PortableForm>) -> Value {
    json!({"name": opt(f.name()), "ty": proj::num(M, f.ty().id()), "tn": opt(f.type_name()), "docs": sts(f.docs())})
}
fn g_fields(fs: &[Field<PortableForm>]) -> Value {
    Value::Array(fs.iter().map(g_field).collect())
}
fn g_variant(v: &Variant<PortableForm>) -> Value {
    json!({"name": proj::st(M, v.name()), "fields": g_fields(v.fields()), "index": v.index(), "docs": sts(v.docs())})
}
fn g_param(p: &TypeParameter<PortableForm>) -> Value {
    json!({"name": proj::st(M, p.name()), "ty": match p.ty() { Some(t) => json!([proj::num(M, t.id())]), None => json!([]) }})
}
fn g_def(d: &TypeDef<PortableForm>) -> Value {
    match d {
        TypeDef::Composite(c) => json!({"tag": "composite", "fields": g_fields(c.fields())}),
        TypeDef::Variant(v) => json!({"tag": "variant", "variants": v.variants().iter().map(g_variant).collect::<Vec<_>>()}),
        TypeDef::Sequence(s) => json!({"tag": "sequence", "ty": proj::num(M, s.type_param().id())}),
        TypeDef::Array(a) => json!({"tag": "array", "len": proj::num(M, a.len()), "ty": proj::num(M, a.type_param().id())}),
        TypeDef::Tuple(t) => json!({"tag": "tuple", "tys": t.fields().iter().map(|x| proj::num(M, x.id())).collect::<Vec<_>>()}),
        TypeDef::Primitive(p) => json!({"tag": "primitive", "prim": proj::prim_name(p)}),
        TypeDef::Compact(c) => json!({"tag": "compact", "ty": proj::num(M, c.type_param().id())}),
        TypeDef::BitSequence(b) => json!({"tag": "bitsequence", "store": proj::num(M, b.bit_store_type().id()), "order": proj::num(M, b.bit_order_type().id())}),
    }
}
fn g_body(t: &Type<PortableForm>) -> Value {
    json!({"path": sts(t.path().segments()), "params": t.type_params().iter().map(g_param).collect::<Vec<_>>(), "def": g_def(t.type_def()), "docs": sts(t.docs())})
}
fn g_registry(r: &PortableRegistry) -> Value {
    Value::Array(r.types().iter().map(|pt| {
        let mut b = g_body(pt.ty());
        b.as_object_mut().unwrap().insert("id".into(), proj::num(M, pt.id()));
        b
    }).collect())
}
fn path_ev(p: &Path<PortableForm>) -> Value {
    json!({"segs": sts(&p.segments), "segs_getter": sts(p.segments()), "empty": p.is_empty(),
           "ident": match p.ident() { Some(s) => json!([proj::st(M, &s)]), None => json!([]) },
           "namespace": sts(p.namespace()), "display": proj::st(M, &p.to_string())})
}
fn from_def(d: &TypeDef<PortableForm>) -> Type<PortableForm> {
    match d.clone() {
        // composite and variant definitions have no From impl of their own: the 4-tuple conversion
        TypeDef::Composite(x) => (Path::from_segments_unchecked(Vec::<String>::new()), vec![], TypeDef::Composite(x), vec![]).into(),
        TypeDef::Variant(x) => (Path::from_segments_unchecked(Vec::<String>::new()), vec![], TypeDef::Variant(x), vec![]).into(),
        TypeDef::Sequence(x) => x.into(),
        TypeDef::Array(x) => x.into(),
        TypeDef::Tuple(x) => x.into(),
        TypeDef::Primitive(x) => x.into(),
        TypeDef::Compact(x) => x.into(),
        TypeDef::BitSequence(x) => x.into(),
    }
}
// constructors and defaults no listed property reads: the unit tuple, the default registry, Field::builder, Debug of a MetaType
fn misc() -> Value {
    use scale_info::{meta_type, IntoPortable, MetaType, Registry, TypeDefTuple};
    let mut r = Registry::default();
    let unit = TypeDefTuple::unit().into_portable(&mut r);
    let after_unit = PortableRegistry::from(r).types.len();
    let via_builder = Field::<scale_info::form::MetaForm>::builder().name("n").ty::<u8>().type_name("u8").finalize();
    let direct = Field::new(Some("n"), meta_type::<u8>(), Some("u8"), vec![]);
    json!({"unit": g_def(&TypeDef::Tuple(unit)), "default_len": PortableRegistry::from(Registry::default()).types.len(), "after_unit": after_unit,
           "field_builder": via_builder == direct,
           "meta_debug": format!("{:?}", MetaType::new::<Vec<u8>>()) == format!("{:?}", std::any::TypeId::of::<[u8]>())})
}
fn main() {
    let a: Vec<String> = std::env::args().collect();
    assert_eq!(a[1], "record");
    let mut rng = StdRng::seed_from_u64(a[2].parse().unwrap());
    let n: usize = a[3].parse().unwrap();
    let mut out = Out::create(&a[4]);
    for _ in 0..n {
        let k = [0, 1, 2, 3, 5, 8][rng.gen_range(0..6)];
        let rv = json!((0..k).map(|_| rand_wide_entry(&mut rng)).collect::<Vec<_>>());
        let reg = proj::un_registry(&rv);
        let probes: Vec<Value> = (0..k + 2).map(|i| json!({"i": i, "got": match reg.resolve(i as u32) { Some(t) => json!([proj::body(M, t)]), None => json!([]) }})).collect();
        let fromdef: Vec<Value> = reg.types.iter().map(|pt| json!({"def": proj::def(M, &pt.ty.type_def), "ty": proj::body(M, &from_def(&pt.ty.type_def))})).collect();
        out.put(&json!({"ev": "Surface", "src": rv, "misc": misc(), "reg": proj::registry(M, &reg), "get": g_registry(&reg),
            "paths": reg.types.iter().map(|pt| path_ev(&pt.ty.path)).collect::<Vec<_>>(), "probes": probes, "fromdef": fromdef}));
    }
    out.flush();
}
