//! C06 / C07 / C14(SCALE) conformance against specs/Wire.tla.
//!   wire layout <cases> <mismatches>     TLC registries+bytes -> real encode/decode
//!   wire fault  <cases> <verdicts>       TLC faulted byte strings -> real decode under a counting allocator
//!   wire record <seed> <n> <out>         random registries (incl. ill-formed, near-miss pairs) -> Encode/Decode trace
//!   wire fuzz   <seed> <n> <out>         random byte strings / mutations of corpus encodings -> verdicts (violations only)
use rand::{rngs::StdRng, seq::SliceRandom, Rng, SeedableRng};
use scale::{Decode, Encode};
use scale_info::PortableRegistry;
use serde_json::{json, Value};
use std::alloc::{GlobalAlloc, Layout, System};
use std::sync::atomic::{AtomicUsize, Ordering::SeqCst};
use vh::gen::{near_miss, rand_wide_entry};
use vh::{guarded, proj, proj::Mode, read_ndjson, Out};

struct Counting;
static CUR: AtomicUsize = AtomicUsize::new(0);
static PEAK: AtomicUsize = AtomicUsize::new(0);
unsafe impl GlobalAlloc for Counting {
    unsafe fn alloc(&self, l: Layout) -> *mut u8 {
        if l.size() > (1 << 30) {
            // a single allocation of more than 1 GiB while decoding inputs of at most a few KiB
            let _ = std::io::Write::write_all(&mut std::io::stderr(), b"ALLOC-CAP: single allocation above 1 GiB\n");
            std::process::abort();
        }
        let c = CUR.fetch_add(l.size(), SeqCst) + l.size();
        PEAK.fetch_max(c, SeqCst);
        System.alloc(l)
    }
    unsafe fn dealloc(&self, p: *mut u8, l: Layout) {
        CUR.fetch_sub(l.size(), SeqCst);
        System.dealloc(p, l)
    }
    unsafe fn realloc(&self, p: *mut u8, l: Layout, n: usize) -> *mut u8 {
        if n > l.size() {
            let c = CUR.fetch_add(n - l.size(), SeqCst) + (n - l.size());
            PEAK.fetch_max(c, SeqCst);
        } else {
            CUR.fetch_sub(l.size() - n, SeqCst);
        }
        System.realloc(p, l, n)
    }
}
#[global_allocator]
static A: Counting = Counting;

fn bytes_of(v: &Value) -> Vec<u8> {
    v.as_array().unwrap().iter().map(|x| x.as_u64().unwrap() as u8).collect()
}

/// decode with a panic in the library reported as data
fn dec_guarded(b: &[u8]) -> Result<Result<(PortableRegistry, usize), String>, String> {
    let b = b.to_vec();
    guarded(move || {
        let mut inp = &b[..];
        PortableRegistry::decode(&mut inp).map(|r| (r, inp.len())).map_err(|e| e.to_string())
    })
}
fn layout(cases: &str, outp: &str) {
    let mut out = Out::create(outp);
    let (mut n, mut bad) = (0u64, 0u64);
    for (ci, c) in read_ndjson(cases).iter().enumerate() {
        n += 1;
        let want = bytes_of(&c["bytes"]);
        let reg = proj::un_registry(&c["reg"]);
        let mut mism: Vec<(&str, String)> = vec![];
        let enc = reg.encode();
        if enc != want {
            let at = enc.iter().zip(want.iter()).position(|(a, b)| a != b).unwrap_or(enc.len().min(want.len()));
            mism.push(("c06", format!("encode differs from the layout at byte {at}: got {:?} expected {:?}", &enc[at.min(enc.len())..(at + 8).min(enc.len())], &want[at.min(want.len())..(at + 8).min(want.len())])));
        }
        // the independent encoder's bytes must decode to the same registry, consuming everything
        match dec_guarded(&want) {
            Ok(Ok((r, left))) => {
                if r != reg || left != 0 {
                    mism.push(("c06", format!("decode of the layout's bytes: equal={} left={}", r == reg, left)));
                }
            }
            Ok(Err(e)) => mism.push(("c06", format!("decode of the layout's bytes failed: {e}"))),
            Err(p) => mism.push(("c06", format!("decode of the layout's bytes panicked: {p}"))),
        }
        // C07 on the library alone: decode(encode(r)) == r, exact consumption, with and without trailing junk
        for junk in [&[][..], &[0u8, 255, 7][..]] {
            let mut b = enc.clone();
            b.extend_from_slice(junk);
            match dec_guarded(&b) {
                Ok(Ok((r, left))) if r == reg && left == junk.len() => {}
                Ok(Ok((r, left))) => mism.push(("c07", format!("round trip: equal={} left={} junk={}", r == reg, left, junk.len()))),
                Ok(Err(e)) => mism.push(("c07", format!("round trip failed: {e}"))),
                Err(p) => mism.push(("c07", format!("round trip panicked: {p}"))),
            }
        }
        if reg.encode() != enc {
            mism.push(("c07", "encode is not deterministic".into()));
        }
        if !mism.is_empty() {
            bad += 1;
            out.put(&json!({"case": ci, "input": c, "mismatch": mism.iter().map(|(a, m)| json!({"aspect": a, "msg": m})).collect::<Vec<_>>()}));
        }
    }
    out.flush();
    println!("{}", json!({"executed": n, "mismatching_cases": bad}));
}

/// Decode one untrusted input the way C14 states it. Returns the verdict.
/// Two kinds of input: a byte slice (its remaining length is known to the codec) and a streaming reader
/// (`remaining_len() == None`, as for a file or socket); the worse verdict is reported.
fn judge(b: &[u8]) -> Value {
    let a = judge_with(b, false);
    if c14_violation(&a, b.len()).is_some() {
        return a;
    }
    let s = judge_with(b, true);
    if c14_violation(&s, b.len()).is_some() || s["ok"] != a["ok"] || (a["ok"] == true && s["consumed"] != a["consumed"]) {
        let mut s = s;
        s["input_kind"] = json!("streaming reader (remaining_len = None)");
        if c14_violation(&s, b.len()).is_none() {
            s["panic"] = json!("slice input and streaming input decode differently");
        }
        return s;
    }
    a
}
fn judge_with(b: &[u8], streaming: bool) -> Value {
    let owned = b.to_vec();
    let base = CUR.load(SeqCst);
    PEAK.store(base, SeqCst);
    let r = guarded(move || {
        if streaming {
            let mut rd = scale::IoReader(std::io::Cursor::new(owned));
            let r = PortableRegistry::decode(&mut rd);
            let pos = rd.0.position() as usize;
            (r, pos)
        } else {
            let mut inp = &owned[..];
            let r = PortableRegistry::decode(&mut inp);
            (r, owned.len() - inp.len())
        }
    });
    let peak = PEAK.load(SeqCst).saturating_sub(base);
    match r {
        Err(p) => json!({"panic": p, "peak": peak}),
        Ok((Err(e), _)) => json!({"ok": false, "err": e.to_string(), "peak": peak}),
        Ok((Ok(reg), consumed)) => {
            let re = reg.encode();
            let canon = re[..] == b[..consumed];
            let len = reg.types.len() as u64;
            // resolve answers None (not a panic) out of range, and the entry itself in range
            let probes = [len.saturating_sub(1), len, len + 1, u32::MAX as u64];
            let reg2 = reg.clone();
            let res = guarded(move || {
                probes.iter().map(|&i| (i, reg2.resolve(i as u32).is_some())).collect::<Vec<_>>()
            });
            let resolve_ok = match &res {
                Ok(v) => v.iter().all(|(i, some)| *some == (*i < len)),
                Err(_) => false,
            };
            json!({"ok": true, "consumed": consumed, "canonical": canon, "resolve_ok": resolve_ok, "peak": peak, "ntypes": len})
        }
    }
}
fn bound(len: usize) -> usize {
    256 * 1024 + 256 * len
}
/// C14's own terms: which clause (if any) does this verdict violate?
fn c14_violation(v: &Value, len: usize) -> Option<String> {
    if let Some(p) = v.get("panic") {
        return Some(format!("panic: {p}"));
    }
    if v["peak"].as_u64().unwrap() as usize > bound(len) {
        return Some(format!("peak allocation {} exceeds 256KiB + 256*len for a {len}-byte input", v["peak"]));
    }
    if v["ok"] == true {
        if v["canonical"] != true {
            return Some("decoded registry does not re-encode to the consumed bytes".into());
        }
        if v["resolve_ok"] != true {
            return Some("resolve misbehaves around the end of the decoded registry".into());
        }
    }
    None
}

fn fault(cases: &str, outp: &str, tracep: &str) {
    let mut out = Out::create(outp);
    let mut tr = Out::create(tracep);
    let (mut n, mut viol, mut dis, mut oks) = (0u64, 0u64, 0u64, 0u64);
    for (ci, c) in read_ndjson(cases).iter().enumerate() {
        n += 1;
        eprintln!("@{ci}");
        let b = bytes_of(&c["bytes"]);
        let v = judge(&b);
        if v["ok"] == true {
            oks += 1;
            // log the successful decode for validation by the specification (C14 canonicity clause)
            let b2 = b.clone();
            if let Ok(Ok(r)) = guarded(move || PortableRegistry::decode(&mut &b2[..])) {
                tr.put(&json!({"ev": "Untrusted", "bytes": b, "ok": true, "reg": proj::registry(Mode::Wide, &r), "consumed": v["consumed"], "reenc": r.encode()}));
            }
        }
        if let Some(m) = c14_violation(&v, b.len()) {
            viol += 1;
            out.put(&json!({"case": ci, "input": c, "verdict": v, "mismatch": [{"aspect": "c14", "msg": m}]}));
        } else if v["ok"].as_bool() != c["ok"].as_bool() || (v["ok"] == true && v["consumed"] != c["consumed"]) {
            // the independent decoder classifies differently: a layout (C06) matter, reported not alarmed here
            dis += 1;
            out.put(&json!({"case": ci, "input": c, "verdict": v, "mismatch": [{"aspect": "model", "msg": "independent decoder disagrees on accept/consumed"}]}));
        }
    }
    out.flush();
    tr.flush();
    println!("{}", json!({"executed": n, "violations": viol, "model_disagreements": dis, "decoded_ok": oks}));
}

// ---------------------------------------------------------------------------------------------
fn record(seed: u64, count: usize, path: &str) {
    let mut rng = StdRng::seed_from_u64(seed);
    let mut out = Out::create(path);
    for _ in 0..count {
        let n = [0, 1, 1, 2, 3, 5][rng.gen_range(0..6)];
        let r0 = json!((0..n).map(|_| rand_wide_entry(&mut rng)).collect::<Vec<_>>());
        for rv in [r0.clone(), near_miss(&mut rng, &r0)] {
            let reg = proj::un_registry(&rv);
            let b1 = reg.encode();
            out.put(&json!({"ev": "Encode", "reg": rv, "bytes": b1}));
            out.put(&json!({"ev": "Encode", "reg": rv, "bytes": reg.encode()})); // determinism
            let junk: Vec<u8> = (0..rng.gen_range(0..4)).map(|_| rng.gen()).collect();
            let mut b = b1.clone();
            b.extend_from_slice(&junk);
            let res = match dec_guarded(&b) {
                Ok(Ok((r, left))) => json!({"ok": [{"reg": proj::registry(Mode::Wide, &r), "consumed": b.len() - left}]}),
                Ok(Err(e)) => json!({"err": e}),
                Err(p) => json!({"err": format!("PANIC: {p}")}),
            };
            out.put(&json!({"ev": "Decode", "bytes": b, "res": res}));
        }
    }
    out.flush();
}

fn fuzz(seed: u64, count: usize, outp: &str) {
    let mut rng = StdRng::seed_from_u64(seed);
    let mut out = Out::create(outp);
    let corpus: Vec<Vec<u8>> = (0..24)
        .map(|i| proj::un_registry(&json!((0..(if i % 8 == 7 { 40 + i } else { i % 5 })).map(|_| rand_wide_entry(&mut rng)).collect::<Vec<_>>())).encode())
        .collect();
    let specials: [u8; 12] = [0, 1, 2, 3, 0x3f, 0x40, 0x7f, 0x80, 0xfc, 0xfd, 0xfe, 0xff];
    let (mut n, mut viol, mut oks) = (0u64, 0u64, 0u64);
    for it in 0..count {
        let b: Vec<u8> = if it % 4 == 0 {
            (0..rng.gen_range(0..24)).map(|_| if rng.gen_bool(0.7) { *specials.choose(&mut rng).unwrap() } else { rng.gen() }).collect()
        } else {
            let mut b = corpus.choose(&mut rng).unwrap().clone();
            for _ in 0..rng.gen_range(1..4) {
                if b.is_empty() { break; }
                let p = rng.gen_range(0..b.len());
                match rng.gen_range(0..6) {
                    0 => b[p] ^= 1 << rng.gen_range(0..8),
                    1 => b[p] = *specials.choose(&mut rng).unwrap(),
                    2 => b.insert(p, *specials.choose(&mut rng).unwrap()),
                    3 => { b.remove(p); }
                    4 => b.truncate(p),
                    _ => { let h: &[u8] = [&[0xfcu8][..], &[0xfd, 0xff], &[0xfe, 0xff, 0xff, 0xff], &[3, 255, 255, 255, 255], &[3, 0, 0, 0, 0x40]][rng.gen_range(0..5)]; b.splice(p..p + 1, h.iter().cloned()); }
                }
            }
            b
        };
        n += 1;
        if it % 4096 == 0 { eprintln!("@{}", json!(b)); }
        let v = judge(&b);
        if v["ok"] == true { oks += 1; }
        if let Some(m) = c14_violation(&v, b.len()) {
            viol += 1;
            out.put(&json!({"input": {"bytes": b}, "verdict": v, "mismatch": [{"aspect": "c14", "msg": m}]}));
        }
    }
    out.flush();
    println!("{}", json!({"executed": n, "violations": viol, "decoded_ok": oks}));
}

fn main() {
    let a: Vec<String> = std::env::args().collect();
    vh::quiet_panics();
    match a[1].as_str() {
        "layout" => layout(&a[2], &a[3]),
        "fault" => fault(&a[2], &a[3], &a[4]),
        "record" => record(a[2].parse().unwrap(), a[3].parse().unwrap(), &a[4]),
        "fuzz" => fuzz(a[2].parse().unwrap(), a[3].parse().unwrap(), &a[4]),
        _ => panic!("usage"),
    }
}
