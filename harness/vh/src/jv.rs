//! Lexical transcoding between serde_json values and the tagged JV form of specs/JsonForm.tla
//! (objects as parallel key/value sequences, strings as UTF-8 bytes, numbers as two 16-bit halves).
use serde_json::{json, Map, Number, Value};

/// document form: every string becomes bytes
pub fn to_jv(v: &Value) -> Value {
    match v {
        Value::Null => json!({"t": "z"}),
        Value::Bool(b) => json!({"t": "b", "v": b}),
        Value::String(s) => json!({"t": "s", "b": s.as_bytes()}),
        Value::Number(n) => num(n),
        Value::Array(a) => json!({"t": "a", "v": a.iter().map(to_jv).collect::<Vec<_>>()}),
        Value::Object(o) => json!({"t": "o", "k": o.keys().collect::<Vec<_>>(), "v": o.values().map(to_jv).collect::<Vec<_>>()}),
    }
}
fn num(n: &Number) -> Value {
    if let Some(u) = n.as_u64() {
        json!({"t": "n", "int": true, "neg": false, "hi": (u >> 16).min(0x7fff_ffff), "lo": u & 0xffff})
    } else if let Some(i) = n.as_i64() {
        let u = i.unsigned_abs();
        json!({"t": "n", "int": true, "neg": true, "hi": (u >> 16).min(0x7fff_ffff), "lo": u & 0xffff})
    } else {
        json!({"t": "n", "int": false, "neg": n.as_f64().unwrap() < 0.0, "hi": 0, "lo": 0})
    }
}
/// schema form: strings stay TLA+ strings (ASCII-sanitised) except under `enum`, where they are in
/// document form so that they compare with document values
pub fn schema_to_jv(v: &Value, in_enum: bool) -> Value {
    match v {
        // schemars writes integer bounds as 0.0, 1.0, 255.0: in a SCHEMA (outside enum) they are integers
        Value::Number(n) if !in_enum && n.as_u64().is_none() && n.as_i64().is_none()
            && n.as_f64().map(|f| f.fract() == 0.0 && f.abs() < 4294967296.0).unwrap_or(false) => {
            let f = n.as_f64().unwrap();
            let u = f.abs() as u64;
            json!({"t": "n", "int": true, "neg": f < 0.0, "hi": u >> 16, "lo": u & 0xffff})
        }
        Value::String(s) if !in_enum => json!({"t": "s", "v": s.chars().map(|c| if c.is_ascii() && c != '"' && c != '\\' && !c.is_control() { c } else { '?' }).collect::<String>()}),
        Value::Array(a) => json!({"t": "a", "v": a.iter().map(|x| schema_to_jv(x, in_enum)).collect::<Vec<_>>()}),
        Value::Object(o) => json!({"t": "o", "k": o.keys().collect::<Vec<_>>(),
            "v": o.iter().map(|(k, x)| schema_to_jv(x, in_enum || k == "enum")).collect::<Vec<_>>()}),
        other => to_jv(other),
    }
}
pub fn from_jv(j: &Value) -> Value {
    match j["t"].as_str().unwrap() {
        "z" => Value::Null,
        "b" => json!(j["v"].as_bool().unwrap()),
        "s" => Value::String(String::from_utf8(j["b"].as_array().unwrap().iter().map(|x| x.as_u64().unwrap() as u8).collect()).unwrap()),
        "n" => {
            if j["int"].as_bool().unwrap() {
                let u = j["hi"].as_u64().unwrap() * 65536 + j["lo"].as_u64().unwrap();
                if j["neg"].as_bool().unwrap() { json!(-(u as i64)) } else { json!(u) }
            } else {
                json!(1.5)
            }
        }
        "a" => Value::Array(j["v"].as_array().unwrap().iter().map(from_jv).collect()),
        "o" => {
            let mut m = Map::new();
            for (k, v) in j["k"].as_array().unwrap().iter().zip(j["v"].as_array().unwrap()) {
                m.insert(k.as_str().unwrap().to_string(), from_jv(v));
            }
            Value::Object(m)
        }
        t => panic!("jv tag {t}"),
    }
}
