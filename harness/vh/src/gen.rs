//! Random registries in the wide neutral form (hostile strings, ids across the compact boundaries,
//! ill-formed references), shared by the wire and json drivers.
use crate::proj::{self, Mode};
use rand::{rngs::StdRng, Rng};
use serde_json::{json, Value};

pub fn rand_str(rng: &mut StdRng) -> String {
    let pool = ["", "a", "T", "é", "名前", "\u{1F600}", "a b", "\0", "\u{7f}", "r#x", "::", "\"", "\\", "\u{80}", "\u{7ff}", "\u{800}", "\u{ffff}", "\u{10000}", "\u{10ffff}"];
    match rng.gen_range(0..10) {
        0..=5 => pool[rng.gen_range(0..pool.len())].to_string(),
        6 => "x".repeat([63, 64, 65, 300][rng.gen_range(0..4)]),
        _ => (0..rng.gen_range(1..5)).map(|_| pool[rng.gen_range(0..pool.len())]).collect(),
    }
}
pub fn rand_id(rng: &mut StdRng) -> u32 {
    let b = [0u32, 1, 2, 63, 64, 65, 16383, 16384, 16385, (1 << 30) - 1, 1 << 30, u32::MAX - 1, u32::MAX];
    if rng.gen_bool(0.5) { rng.gen_range(0..8) } else { b[rng.gen_range(0..b.len())] }
}
fn w(n: u32) -> Value {
    proj::num(Mode::Wide, n)
}
fn ws(s: &str) -> Value {
    proj::st(Mode::Wide, s)
}
fn rand_docs(rng: &mut StdRng) -> Value {
    json!((0..[0, 0, 1, 2][rng.gen_range(0..4)]).map(|_| ws(&rand_str(rng))).collect::<Vec<_>>())
}
fn rand_opt(rng: &mut StdRng) -> Value {
    if rng.gen_bool(0.5) { json!([ws(&rand_str(rng))]) } else { json!([]) }
}
fn rand_fields(rng: &mut StdRng) -> Value {
    json!((0..[0, 1, 2, 3][rng.gen_range(0..4)]).map(|_| json!({"name": rand_opt(rng), "ty": w(rand_id(rng)), "tn": rand_opt(rng), "docs": rand_docs(rng)})).collect::<Vec<_>>())
}
pub fn rand_wide_entry(rng: &mut StdRng) -> Value {
    let def = match rng.gen_range(0..10) {
        0 | 1 => json!({"tag": "composite", "fields": rand_fields(rng)}),
        2 | 3 => json!({"tag": "variant", "variants": (0..rng.gen_range(0..3)).map(|_| json!({"name": ws(&rand_str(rng)), "fields": rand_fields(rng), "index": rng.gen_range(0..256), "docs": rand_docs(rng)})).collect::<Vec<_>>()}),
        4 => json!({"tag": "sequence", "ty": w(rand_id(rng))}),
        5 => json!({"tag": "array", "len": w(rand_id(rng)), "ty": w(rand_id(rng))}),
        6 => json!({"tag": "tuple", "tys": (0..rng.gen_range(0..4)).map(|_| w(rand_id(rng))).collect::<Vec<_>>()}),
        7 => json!({"tag": "primitive", "prim": proj::PRIMS[rng.gen_range(0..15)].0}),
        8 => json!({"tag": "compact", "ty": w(rand_id(rng))}),
        _ => json!({"tag": "bitsequence", "store": w(rand_id(rng)), "order": w(rand_id(rng))}),
    };
    json!({"id": w(rand_id(rng)), "path": (0..rng.gen_range(0..3)).map(|_| ws(&rand_str(rng))).collect::<Vec<_>>(),
        "params": (0..[0, 0, 1, 2][rng.gen_range(0..4)]).map(|_| json!({"name": ws(&rand_str(rng)), "ty": if rng.gen_bool(0.6) { json!([w(rand_id(rng))]) } else { json!([]) }})).collect::<Vec<_>>(),
        "def": def, "docs": rand_docs(rng)})
}
/// a registry differing from `r` in exactly one small respect (near miss, for injectivity)
pub fn near_miss(rng: &mut StdRng, r: &Value) -> Value {
    let mut r = r.clone();
    let a = r.as_array_mut().unwrap();
    if a.is_empty() {
        a.push(rand_wide_entry(rng));
        return r;
    }
    let i = rng.gen_range(0..a.len());
    match rng.gen_range(0..6) {
        0 => a[i]["docs"] = json!([ws("")]),
        1 => a[i]["path"].as_array_mut().unwrap().push(ws("")),
        2 => a[i]["id"] = w(rand_id(rng)),
        3 => { a.remove(i); }
        4 => { let e = a[i].clone(); a.push(e); }
        _ => a[i] = rand_wide_entry(rng),
    }
    r
}

