//! Projections for values produced by the typestate builders (C17 / C20 programs).  Compile-time-form
//! references are rendered as the canonical spelling of the closed leaf-type alphabet the generator uses.
use crate::proj::{self, Mode};
use scale_info::{form::{MetaForm, PortableForm}, meta_type, Field, MetaType, Type, TypeDef, Variant};
use serde_json::{json, Value};
use std::marker::PhantomData;

pub fn spelling(m: &MetaType) -> Value {
    let table: [(&str, MetaType); 5] = [
        ("u8", meta_type::<u8>()),
        ("String", meta_type::<String>()),
        ("phantom", meta_type::<PhantomData<()>>()),
        ("Compact<u32>", meta_type::<scale::Compact<u32>>()),
        ("u32", meta_type::<u32>()),
    ];
    json!(table.iter().find(|(_, t)| t == m).map(|(n, _)| n.to_string()).unwrap_or_else(|| format!("{:?}", m.type_id())))
}
pub fn mfield(f: &Field<MetaForm>) -> Value {
    json!({"name": f.name.into_iter().collect::<Vec<_>>(), "ty": spelling(&f.ty), "tn": f.type_name.into_iter().collect::<Vec<_>>(), "docs": f.docs})
}
pub fn mfields(fs: &[Field<MetaForm>]) -> Value {
    json!(fs.iter().map(mfield).collect::<Vec<_>>())
}
pub fn mvariant(v: &Variant<MetaForm>) -> Value {
    json!({"name": v.name, "fields": mfields(&v.fields), "index": v.index, "docs": v.docs})
}
pub fn mvariants(vs: &scale_info::TypeDefVariant<MetaForm>) -> Value {
    json!(vs.variants.iter().map(mvariant).collect::<Vec<_>>())
}
pub fn mtype(t: &Type<MetaForm>) -> Value {
    let def = match &t.type_def {
        TypeDef::Composite(c) => json!({"tag": "composite", "fields": mfields(&c.fields)}),
        TypeDef::Variant(v) => json!({"tag": "variant", "variants": mvariants(v)}),
        _ => json!({"tag": "other"}),
    };
    json!({"path": t.path.segments, "params": t.type_params.iter().map(|p| json!({"name": p.name, "ty": p.ty.iter().map(spelling).collect::<Vec<_>>()})).collect::<Vec<_>>(),
           "docs": t.docs, "def": def})
}
pub fn pfield(f: &Field<PortableForm>) -> Value {
    proj::field(Mode::Plain, f)
}
pub fn pfields(fs: &[Field<PortableForm>]) -> Value {
    json!(fs.iter().map(pfield).collect::<Vec<_>>())
}
pub fn pvariant(v: &Variant<PortableForm>) -> Value {
    proj::variant(Mode::Plain, v)
}
pub fn pvariants(vs: &scale_info::TypeDefVariant<PortableForm>) -> Value {
    json!(vs.variants.iter().map(pvariant).collect::<Vec<_>>())
}
pub fn ptype(t: &Type<PortableForm>) -> Value {
    let b = proj::body(Mode::Plain, t);
    json!({"path": b["path"], "params": b["params"], "docs": b["docs"], "def": b["def"]})
}
// ---- the same values after conversion to the PORTABLE form (C17: kept "in both forms"); type ids are blanked,
// everything else (names, type names, docs, indices, order, erased members) must be what was supplied
fn blank(mut v: Value) -> Value {
    fn go(v: &mut Value) {
        match v {
            Value::Object(o) => {
                for (k, x) in o.iter_mut() {
                    if k == "ty" {
                        *x = match x { Value::Array(a) => json!(a.iter().map(|_| "*").collect::<Vec<_>>()), _ => json!("*") };
                    } else {
                        go(x)
                    }
                }
            }
            Value::Array(a) => a.iter_mut().for_each(go),
            _ => {}
        }
    }
    go(&mut v);
    v
}
pub fn mfield_p(f: &Field<MetaForm>) -> Value {
    use scale_info::IntoPortable;
    blank(pfield(&f.clone().into_portable(&mut scale_info::Registry::new())))
}
pub fn mfields_p(fs: &[Field<MetaForm>]) -> Value {
    json!(fs.iter().map(mfield_p).collect::<Vec<_>>())
}
pub fn mvariant_p(v: &Variant<MetaForm>) -> Value {
    use scale_info::IntoPortable;
    blank(pvariant(&v.clone().into_portable(&mut scale_info::Registry::new())))
}
pub fn mvariants_p(vs: &scale_info::TypeDefVariant<MetaForm>) -> Value {
    // the definition converted AS A WHOLE (its own IntoPortable), not variant by variant
    use scale_info::IntoPortable;
    blank(pvariants(&vs.clone().into_portable(&mut scale_info::Registry::new())))
}
pub fn mtype_p(t: &Type<MetaForm>) -> Value {
    use scale_info::IntoPortable;
    blank(ptype(&t.clone().into_portable(&mut scale_info::Registry::new())))
}
pub fn out(i: usize, v: Value) {
    println!("{}", json!({"i": i, "res": v}));
}
pub fn out2(i: usize, v: Value, p: Value) {
    println!("{}", json!({"i": i, "res": v, "pres": p}));
}
