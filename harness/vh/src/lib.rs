pub mod bld;
pub mod dv;
pub mod extract;
pub mod gen;
pub mod jv;
pub mod proj;
pub mod texpr;
pub mod uni;
pub mod val;

use serde_json::Value;
use std::io::{BufRead, Write};

/// Read an ndjson file into values.
pub fn read_ndjson(path: &str) -> Vec<Value> {
    stream_ndjson(path).collect()
}

/// Stream an ndjson file (or raw TLC output containing PrintT'ed JSON lines) value by value.
pub fn stream_ndjson(path: &str) -> impl Iterator<Item = Value> {
    let f = std::fs::File::open(path).unwrap_or_else(|e| panic!("open {path}: {e}"));
    std::io::BufReader::new(f)
        .lines()
        .map(|l| l.unwrap())
        .filter(|l| !l.trim().is_empty())
        .filter_map(|l| {
            if l.starts_with("<<\"") {
                // a line PrintT'ed by TLC: <<"TAG", "escaped json">>
                let a = l.find("\", \"")? + 3;
                let inner = &l[a..l.len() - 2];
                let unesc: String = serde_json::from_str(inner).ok()?;
                Some(serde_json::from_str(&unesc).unwrap_or_else(|e| panic!("json {e}: {unesc}")))
            } else if l.starts_with('{') || l.starts_with('[') {
                Some(serde_json::from_str(&l).unwrap_or_else(|e| panic!("json {e}: {l}")))
            } else {
                None // TLC chatter
            }
        })
}

pub struct Out(std::io::BufWriter<std::fs::File>);
impl Out {
    pub fn create(path: &str) -> Self {
        Out(std::io::BufWriter::new(std::fs::File::create(path).unwrap()))
    }
    pub fn put(&mut self, v: &Value) {
        serde_json::to_writer(&mut self.0, v).unwrap();
        self.0.write_all(b"\n").unwrap();
    }
    pub fn flush(&mut self) {
        self.0.flush().unwrap();
    }
}

/// Run `f` catching panics of the code under test; a panic is data.
pub fn guarded<R>(f: impl FnOnce() -> R + std::panic::UnwindSafe) -> Result<R, String> {
    std::panic::catch_unwind(f).map_err(|e| {
        if let Some(s) = e.downcast_ref::<&str>() {
            s.to_string()
        } else if let Some(s) = e.downcast_ref::<String>() {
            s.clone()
        } else {
            "panic".to_string()
        }
    })
}

pub fn quiet_panics() {
    std::panic::set_hook(Box::new(|_| {}));
}

pub fn leak(s: &str) -> &'static str {
    Box::leak(s.to_string().into_boxed_str())
}
