//! A runtime-configurable type universe: `Node<I>` implements `TypeInfo` by reading the description
//! of node `I` from a thread-local, so TLC-generated or random type graphs (cycles, aliases, every
//! definition kind) can be loaded at run time and registered with the real `Registry`.
//!
//! A *spelling* `{t, w}` names node `t` through wrapper `w`:
//!   0 `Node<t>`  1 `Box<Node<t>>`  2 `&'static Node<t>`  3 `Rc<Node<t>>`  4 `Arc<Node<t>>`
//!   5 `&'static mut Node<t>`  6 `PhantomData<Node<t>>` (identity: the shared phantom identity)
//!   7 `Box<Rc<Node<t>>>`  8 `&'static Box<Node<t>>`  9 `Arc<Box<_>>`  10 `Rc<&_>`  11 `&mut Arc<_>`  12 `Box<&mut Rc<_>>`
//!   (wrappers of wrappers, each wrapper kind outermost at least once)
use scale_info::{
    form::MetaForm, meta_type, Field, MetaType, Path, Type, TypeDef, TypeDefArray,
    TypeDefBitSequence, TypeDefCompact, TypeDefComposite, TypeDefSequence, TypeDefTuple,
    TypeDefVariant, TypeInfo, TypeParameter, Variant,
};
use serde_json::{json, Value};
use std::cell::RefCell;
use std::marker::PhantomData;
use std::rc::Rc;
use std::sync::Arc;

pub const MAX_NODES: usize = 12;
pub const PHANTOM_W: u64 = 6;

pub struct Node<const I: usize>;

thread_local! {
    static UNIVERSE: RefCell<Vec<Value>> = RefCell::new(Vec::new());
    static LOG: RefCell<Vec<Value>> = RefCell::new(Vec::new());
}

pub fn load(info: &Value) {
    UNIVERSE.with(|u| *u.borrow_mut() = info.as_array().unwrap().clone());
}
pub fn take_log() -> Vec<Value> {
    LOG.with(|l| std::mem::take(&mut *l.borrow_mut()))
}
pub fn log(v: Value) {
    LOG.with(|l| l.borrow_mut().push(v));
}

impl<const I: usize> TypeInfo for Node<I> {
    type Identity = Self;
    fn type_info() -> Type {
        log(json!({"ev": "Eval", "t": I}));
        let v = UNIVERSE.with(|u| u.borrow()[I].clone());
        build(&v)
    }
}

macro_rules! table {
    ($($i:literal),*) => {
        /// MetaType of spelling (t, w).
        pub fn meta(t: usize, w: u64) -> MetaType {
            match (t, w) {
                $(
                    ($i, 0) => meta_type::<Node<$i>>(),
                    ($i, 1) => meta_type::<Box<Node<$i>>>(),
                    ($i, 2) => meta_type::<&'static Node<$i>>(),
                    ($i, 3) => meta_type::<Rc<Node<$i>>>(),
                    ($i, 4) => meta_type::<Arc<Node<$i>>>(),
                    ($i, 5) => meta_type::<&'static mut Node<$i>>(),
                    ($i, 6) => meta_type::<PhantomData<Node<$i>>>(),
                    ($i, 7) => meta_type::<Box<Rc<Node<$i>>>>(),
                    ($i, 8) => meta_type::<&'static Box<Node<$i>>>(),
                    ($i, 9) => meta_type::<Arc<Box<Node<$i>>>>(),
                    ($i, 10) => meta_type::<Rc<&'static Node<$i>>>(),
                    ($i, 11) => meta_type::<&'static mut Arc<Node<$i>>>(),
                    ($i, 12) => meta_type::<Box<&'static mut Rc<Node<$i>>>>(),
                )*
                _ => panic!("no spelling ({t},{w})"),
            }
        }
    };
}
table!(0, 1, 2, 3, 4, 5, 6, 7, 8, 9, 10, 11);

pub fn sp(v: &Value) -> MetaType {
    meta(v["t"].as_u64().unwrap() as usize, v["w"].as_u64().unwrap())
}
fn s(v: &Value) -> &'static str {
    crate::leak(v.as_str().unwrap())
}
fn ss(v: &Value) -> Vec<&'static str> {
    v.as_array().unwrap().iter().map(s).collect()
}
fn os(v: &Value) -> Option<&'static str> {
    v.as_array().unwrap().first().map(s)
}
pub fn mfield(v: &Value) -> Field<MetaForm> {
    Field::new(os(&v["name"]), sp(&v["ty"]), os(&v["tn"]), ss(&v["docs"]))
}
fn mfields(v: &Value) -> Vec<Field<MetaForm>> {
    v.as_array().unwrap().iter().map(mfield).collect()
}
pub fn mvariant(v: &Value) -> Variant<MetaForm> {
    Variant::new(s(&v["name"]), mfields(&v["fields"]), v["index"].as_u64().unwrap() as u8, ss(&v["docs"]))
}
pub fn mparam(p: &Value) -> TypeParameter<MetaForm> {
    TypeParameter::new(s(&p["name"]), p["ty"].as_array().unwrap().first().map(sp))
}

/// Build the compile-time-form `Type` a universe entry describes. Uses raw constructors / public
/// fields only (no builder), so nothing is filtered: the universe says exactly what `type_info()` is.
pub fn build(v: &Value) -> Type<MetaForm> {
    let d = &v["def"];
    let def: TypeDef<MetaForm> = match d["tag"].as_str().unwrap() {
        "composite" => TypeDefComposite::new(mfields(&d["fields"])).into(),
        "variant" => TypeDefVariant::new(d["variants"].as_array().unwrap().iter().map(mvariant)).into(),
        "sequence" => TypeDefSequence::new(sp(&d["ty"])).into(),
        "array" => TypeDefArray::new(d["len"].as_u64().unwrap() as u32, sp(&d["ty"])).into(),
        "tuple" => TypeDefTuple::<MetaForm> { fields: d["tys"].as_array().unwrap().iter().map(sp).collect() }.into(),
        "primitive" => crate::proj::prim_of(d["prim"].as_str().unwrap()).into(),
        "compact" => TypeDefCompact::new(sp(&d["ty"])).into(),
        "bitsequence" => {
            TypeDefBitSequence::<MetaForm> { bit_store_type: sp(&d["store"]), bit_order_type: sp(&d["order"]) }.into()
        }
        t => panic!("tag {t}"),
    };
    Type::new(
        Path::from_segments_unchecked(ss(&v["path"])),
        v["params"].as_array().unwrap().iter().map(mparam).collect::<Vec<_>>(),
        def,
        ss(&v["docs"]),
    )
}

/// The universe entry of the shared phantom identity (what `PhantomData<T>::type_info()` returns).
pub fn phantom_info() -> Value {
    // its docs go through the feature-gated `docs()` setter
    let docs: Vec<&str> = if cfg!(feature = "docs") { vec!["PhantomData placeholder, this type should be filtered out"] } else { vec![] };
    json!({"path": ["PhantomData"], "params": [], "def": {"tag": "composite", "fields": []}, "docs": docs})
}
