// placeholder
