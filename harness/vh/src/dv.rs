//! Runtime support for generated derive programs (C03, C09, C13, C17): log what the derived
//! `TypeInfo` says, next to what the generator knows about the declaration.
use crate::proj::{self, Mode};
use crate::texpr::{meta_body, tid};
use crate::val::Val;
use rand::{rngs::StdRng, SeedableRng};
use scale::Encode;
use scale_info::{meta_type, MetaType, PortableRegistry, Registry, TypeInfo};
use serde_json::{json, Value};
use std::io::Write;

fn nows(s: &str) -> String {
    s.chars().filter(|c| !c.is_whitespace()).collect()
}
/// strip whitespace from every type name of a projected definition ("equal up to whitespace")
fn strip_type_names(v: &mut Value) {
    match v {
        Value::Object(o) => {
            if let Some(Value::Array(tn)) = o.get_mut("tn") {
                for x in tn.iter_mut() {
                    if let Value::String(s) = x {
                        *s = nows(s);
                    }
                }
            }
            for (_, x) in o.iter_mut() {
                strip_type_names(x);
            }
        }
        Value::Array(a) => a.iter_mut().for_each(strip_type_names),
        _ => {}
    }
}
/// every type reference of a projected definition replaced by 0 (what remains: names, type names, indices, docs, order)
fn blank_refs(v: &mut Value) {
    match v {
        Value::Object(o) => {
            if let Some(t) = o.get_mut("ty") {
                *t = match t {
                    Value::Array(a) => Value::Array(a.iter().map(|_| json!(0)).collect()),
                    _ => json!(0),
                };
            }
            for (k, x) in o.iter_mut() {
                if k != "ty" {
                    blank_refs(x);
                }
            }
        }
        Value::Array(a) => a.iter_mut().for_each(blank_refs),
        _ => {}
    }
}
pub fn t<T: TypeInfo + ?Sized + 'static>() -> String {
    tid(&meta_type::<T>()).as_str().unwrap().to_string()
}
pub struct Out {
    out: std::io::BufWriter<std::io::Stdout>,
    pub rng: StdRng,
    nvals: usize,
}
impl Out {
    pub fn new(seed: u64, nvals: usize) -> Self {
        Out { out: std::io::BufWriter::new(std::io::stdout()), rng: StdRng::seed_from_u64(seed), nvals }
    }
    pub fn put(&mut self, v: &Value) {
        serde_json::to_writer(&mut self.out, v).unwrap();
        self.out.write_all(b"\n").unwrap();
    }
    /// what the derive reports for declaration `id`, with the TypeIds the generator expects for the
    /// declared field types (per field group) and the parameter arguments
    pub fn derived<T: TypeInfo + 'static>(&mut self, id: usize, ftids: Vec<Vec<String>>, ptids: Vec<String>, modpath: &str) {
        let mut obs = meta_body(&T::type_info());
        strip_type_names(&mut obs);
        let mp: Vec<&str> = modpath.split("::").collect();
        // the parameters as a consumer of the PORTABLE registry sees them: [name, has a type]
        let mut r = Registry::new();
        let tid = r.register_type(&meta_type::<T>()).id;
        let p: PortableRegistry = r.into();
        let pparams: Vec<Value> = p.resolve(tid).map(|t| t.type_params.iter().map(|q| json!([q.name, q.ty.is_some()])).collect()).unwrap_or_default();
        // ... and everything else of the portable form (path, names, type names, indices, docs at every level)
        let mut pview = p.resolve(tid).map(|t| proj::body(Mode::Plain, t)).unwrap_or(Value::Null);
        strip_type_names(&mut pview);
        blank_refs(&mut pview);
        let ev = json!({"ev": "Derived", "id": id, "pview": pview, "docs_feature": cfg!(feature = "docs"), "obs": obs, "ftids": ftids, "ptids": ptids, "modpath": mp, "pparams": pparams,
                        "phantom": t::<core::marker::PhantomData<()>>()});
        self.put(&ev);
        let mut fe = crate::extract::faithful_event(&[meta_type::<T>()]);
        fe["id"] = json!(id);
        self.put(&fe);
    }
    /// two instantiations of one declaration, registered in ONE registry: each must resolve to its own definition
    pub fn pair<T: TypeInfo + 'static, T2: TypeInfo + 'static>(&mut self, id: usize) {
        let mut fe = crate::extract::faithful_event(&[meta_type::<T>(), meta_type::<T2>()]);
        fe["id"] = json!(id);
        self.put(&fe);
    }
    /// the portable registry containing T (what a third-party decoder gets) and values of T
    pub fn values<T: TypeInfo + Val + Encode + 'static>(&mut self, id: usize) {
        let mut r = Registry::new();
        let ty = r.register_type(&meta_type::<T>()).id;
        let p: PortableRegistry = r.into();
        self.put(&json!({"ev": "Type", "id": id, "ty": ty, "reg": proj::registry(Mode::Plain, &p)}));
        for _ in 0..self.nvals {
            let v = T::gen(&mut self.rng, 0);
            let ev = json!({"ev": "Value", "id": id, "tree": v.tree(), "bytes": v.encode()});
            self.put(&ev);
        }
    }
    pub fn done(mut self) {
        self.out.flush().unwrap();
    }
}
pub fn meta_of<T: TypeInfo + 'static>() -> MetaType {
    meta_type::<T>()
}
