//! Projection of scale-info values to the neutral JSON shape of specs/SITypes.tla and back.
//!
//! The projection walks public fields only (never the crate's serde or codec impls); the inverse
//! builds values through public constructors only.
//!
//! Two modes: `plain` (u32 as JSON ints — callers keep them < 2^31 —, strings as JSON strings) and
//! `wide` (u32 as 4 little-endian bytes, strings as arrays of UTF-8 bytes) because TLC's Json module
//! wraps integers >= 2^31 and garbles non-ASCII text.
use scale_info::{
    form::PortableForm, Field, Path, PortableRegistry, PortableType, Type, TypeDef, TypeDefArray,
    TypeDefBitSequence, TypeDefCompact, TypeDefComposite, TypeDefPrimitive, TypeDefSequence,
    TypeDefTuple, TypeDefVariant, TypeParameter, Variant,
};
use serde_json::{json, Value};

#[derive(Clone, Copy, PartialEq)]
pub enum Mode {
    Plain,
    Wide,
}

pub fn num(m: Mode, n: u32) -> Value {
    match m {
        Mode::Plain => json!(n),
        Mode::Wide => json!(n.to_le_bytes().to_vec()),
    }
}
pub fn st(m: Mode, s: &str) -> Value {
    match m {
        Mode::Plain => json!(s),
        Mode::Wide => json!(s.as_bytes().to_vec()),
    }
}
fn sts(m: Mode, v: &[String]) -> Value {
    Value::Array(v.iter().map(|s| st(m, s)).collect())
}
fn opt_st(m: Mode, o: &Option<String>) -> Value {
    match o {
        Some(s) => json!([st(m, s)]),
        None => json!([]),
    }
}

pub const PRIMS: [(&str, TypeDefPrimitive); 15] = [
    ("bool", TypeDefPrimitive::Bool),
    ("char", TypeDefPrimitive::Char),
    ("str", TypeDefPrimitive::Str),
    ("u8", TypeDefPrimitive::U8),
    ("u16", TypeDefPrimitive::U16),
    ("u32", TypeDefPrimitive::U32),
    ("u64", TypeDefPrimitive::U64),
    ("u128", TypeDefPrimitive::U128),
    ("u256", TypeDefPrimitive::U256),
    ("i8", TypeDefPrimitive::I8),
    ("i16", TypeDefPrimitive::I16),
    ("i32", TypeDefPrimitive::I32),
    ("i64", TypeDefPrimitive::I64),
    ("i128", TypeDefPrimitive::I128),
    ("i256", TypeDefPrimitive::I256),
];

pub fn prim_name(p: &TypeDefPrimitive) -> &'static str {
    PRIMS.iter().find(|(_, q)| q == p).unwrap().0
}
pub fn prim_of(s: &str) -> TypeDefPrimitive {
    PRIMS.iter().find(|(n, _)| *n == s).unwrap().1.clone()
}

pub fn field(m: Mode, f: &Field<PortableForm>) -> Value {
    json!({"name": opt_st(m, &f.name), "ty": num(m, f.ty.id), "tn": opt_st(m, &f.type_name), "docs": sts(m, &f.docs)})
}
fn fields(m: Mode, fs: &[Field<PortableForm>]) -> Value {
    Value::Array(fs.iter().map(|f| field(m, f)).collect())
}
pub fn variant(m: Mode, v: &Variant<PortableForm>) -> Value {
    json!({"name": st(m, &v.name), "fields": fields(m, &v.fields), "index": v.index, "docs": sts(m, &v.docs)})
}
pub fn param(m: Mode, p: &TypeParameter<PortableForm>) -> Value {
    json!({"name": st(m, &p.name), "ty": match &p.ty { Some(t) => json!([num(m, t.id)]), None => json!([]) }})
}

pub fn def(m: Mode, d: &TypeDef<PortableForm>) -> Value {
    match d {
        TypeDef::Composite(c) => json!({"tag": "composite", "fields": fields(m, &c.fields)}),
        TypeDef::Variant(v) => {
            json!({"tag": "variant", "variants": v.variants.iter().map(|x| variant(m, x)).collect::<Vec<_>>()})
        }
        TypeDef::Sequence(s) => json!({"tag": "sequence", "ty": num(m, s.type_param.id)}),
        TypeDef::Array(a) => json!({"tag": "array", "len": num(m, a.len), "ty": num(m, a.type_param.id)}),
        TypeDef::Tuple(t) => {
            json!({"tag": "tuple", "tys": t.fields.iter().map(|x| num(m, x.id)).collect::<Vec<_>>()})
        }
        TypeDef::Primitive(p) => json!({"tag": "primitive", "prim": prim_name(p)}),
        TypeDef::Compact(c) => json!({"tag": "compact", "ty": num(m, c.type_param.id)}),
        TypeDef::BitSequence(b) => {
            json!({"tag": "bitsequence", "store": num(m, b.bit_store_type.id), "order": num(m, b.bit_order_type.id)})
        }
    }
}

/// Body of a type (no id).
pub fn body(m: Mode, t: &Type<PortableForm>) -> Value {
    json!({
        "path": sts(m, &t.path.segments),
        "params": t.type_params.iter().map(|p| param(m, p)).collect::<Vec<_>>(),
        "def": def(m, &t.type_def),
        "docs": sts(m, &t.docs),
    })
}
pub fn entry(m: Mode, id: u32, t: &Type<PortableForm>) -> Value {
    let mut b = body(m, t);
    b.as_object_mut().unwrap().insert("id".into(), num(m, id));
    b
}
pub fn registry(m: Mode, r: &PortableRegistry) -> Value {
    Value::Array(r.types.iter().map(|pt| entry(m, pt.id, &pt.ty)).collect())
}

// ---------------------------------------------------------------------------------------------
// inverse: neutral JSON -> values, via public constructors only

pub fn un_num(v: &Value) -> u32 {
    match v {
        Value::Number(n) => n.as_u64().unwrap() as u32,
        Value::Array(a) => {
            let b: Vec<u8> = a.iter().map(|x| x.as_u64().unwrap() as u8).collect();
            u32::from_le_bytes([b[0], b[1], b[2], b[3]])
        }
        _ => panic!("bad number {v}"),
    }
}
pub fn un_st(v: &Value) -> String {
    match v {
        Value::String(s) => s.clone(),
        Value::Array(a) => {
            String::from_utf8(a.iter().map(|x| x.as_u64().unwrap() as u8).collect()).expect("utf8")
        }
        _ => panic!("bad string {v}"),
    }
}
fn un_sts(v: &Value) -> Vec<String> {
    v.as_array().unwrap().iter().map(un_st).collect()
}
fn un_opt_st(v: &Value) -> Option<String> {
    v.as_array().unwrap().first().map(un_st)
}
pub fn un_field(v: &Value) -> Field<PortableForm> {
    Field::new(un_opt_st(&v["name"]), un_num(&v["ty"]).into(), un_opt_st(&v["tn"]), un_sts(&v["docs"]))
}
fn un_fields(v: &Value) -> Vec<Field<PortableForm>> {
    v.as_array().unwrap().iter().map(un_field).collect()
}
pub fn un_variant(v: &Value) -> Variant<PortableForm> {
    Variant::new(un_st(&v["name"]), un_fields(&v["fields"]), v["index"].as_u64().unwrap() as u8, un_sts(&v["docs"]))
}
pub fn un_def(v: &Value) -> TypeDef<PortableForm> {
    match v["tag"].as_str().unwrap() {
        "composite" => TypeDefComposite::new(un_fields(&v["fields"])).into(),
        "variant" => TypeDefVariant::new(v["variants"].as_array().unwrap().iter().map(un_variant)).into(),
        "sequence" => TypeDefSequence::new(un_num(&v["ty"]).into()).into(),
        "array" => TypeDefArray::new(un_num(&v["len"]), un_num(&v["ty"]).into()).into(),
        "tuple" => TypeDefTuple::new_portable(v["tys"].as_array().unwrap().iter().map(|x| un_num(x).into())).into(),
        "primitive" => prim_of(v["prim"].as_str().unwrap()).into(),
        "compact" => TypeDefCompact::new(un_num(&v["ty"]).into()).into(),
        "bitsequence" => {
            TypeDefBitSequence::new_portable(un_num(&v["store"]).into(), un_num(&v["order"]).into()).into()
        }
        t => panic!("bad tag {t}"),
    }
}
pub fn un_body(v: &Value) -> Type<PortableForm> {
    let params = v["params"].as_array().unwrap().iter().map(|p| {
        TypeParameter::new_portable(un_st(&p["name"]), p["ty"].as_array().unwrap().first().map(|x| un_num(x).into()))
    });
    Type::new(
        Path::from_segments_unchecked(un_sts(&v["path"])),
        params.collect::<Vec<_>>(),
        un_def(&v["def"]),
        un_sts(&v["docs"]),
    )
}
pub fn un_registry(v: &Value) -> PortableRegistry {
    PortableRegistry {
        types: v.as_array().unwrap().iter().map(|e| PortableType::new(un_num(&e["id"]), un_body(e))).collect(),
    }
}
