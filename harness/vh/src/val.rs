//! Value-side oracle for C03/C04: for every built-in Rust type, how to make a random value and what
//! that value *is* as an abstract tree — written by hand from the language / SCALE documentation,
//! never from `TypeInfo`.  Tree shapes (what specs/ScaleValue.tla's decoder must recover):
//!   {"k":"prim","b":[LE bytes]}      fixed-width integers and bool
//!   {"k":"str","b":[utf8]}           {"k":"compact","v":prim}      {"k":"bits","b":[0/1...]}
//!   {"k":"seq","i":[..]}  {"k":"array","i":[..]}  {"k":"tuple","i":[..]}
//!   {"k":"composite","f":[{"n":[]|[name],"v":tree}..]}   {"k":"variant","name":..,"f":[..]}
use rand::{rngs::StdRng, Rng};
use serde_json::{json, Value};
use std::borrow::Cow;
use std::collections::{BTreeMap, BTreeSet, BinaryHeap, VecDeque};
use std::marker::PhantomData;
use std::ops::{Range, RangeInclusive};
use std::rc::Rc;
use std::sync::Arc;
use std::time::Duration;

pub trait Val: Sized {
    fn gen(rng: &mut StdRng, depth: u32) -> Self;
    fn tree(&self) -> Value;
}

pub fn prim(b: &[u8]) -> Value {
    json!({"k": "prim", "b": b})
}
pub fn unnamed(v: Vec<Value>) -> Value {
    json!({"k": "composite", "f": v.into_iter().map(|x| json!({"n": [], "v": x})).collect::<Vec<_>>()})
}
pub fn named(v: Vec<(&str, Value)>) -> Value {
    json!({"k": "composite", "f": v.into_iter().map(|(n, x)| json!({"n": [n], "v": x})).collect::<Vec<_>>()})
}
pub fn variant(name: &str, fields: Vec<(Option<&str>, Value)>) -> Value {
    json!({"k": "variant", "name": name, "f": fields.into_iter().map(|(n, x)| json!({"n": n.into_iter().collect::<Vec<_>>(), "v": x})).collect::<Vec<_>>()})
}
fn len(rng: &mut StdRng, depth: u32) -> usize {
    // recursion through fixed-size arrays of containers of Self must die out
    if depth > 4 { 0 } else if depth > 2 { rng.gen_range(0..2) } else { [0, 1, 2, 3, 5][rng.gen_range(0..5)] }
}

macro_rules! int_val {
    ($($t:ty),*) => { $(
        impl Val for $t {
            fn gen(rng: &mut StdRng, _d: u32) -> Self {
                match rng.gen_range(0..6) { 0 => 0, 1 => <$t>::MAX, 2 => <$t>::MIN, 3 => 1, _ => rng.gen() }
            }
            fn tree(&self) -> Value { prim(&self.to_le_bytes()) }
        }
    )* }
}
int_val!(u8, u16, u32, u64, u128, i8, i16, i32, i64, i128);

impl Val for bool {
    fn gen(rng: &mut StdRng, _d: u32) -> Self { rng.gen() }
    fn tree(&self) -> Value { prim(&[*self as u8]) }
}
impl Val for String {
    fn gen(rng: &mut StdRng, _d: u32) -> Self {
        ["", "a", "héllo", "名前", "\u{1F600}!", "x y z"][rng.gen_range(0..6)].to_string() + &"q".repeat([0, 0, 0, 70][rng.gen_range(0..4)])
    }
    fn tree(&self) -> Value { json!({"k": "str", "b": self.as_bytes()}) }
}
impl Val for () {
    fn gen(_: &mut StdRng, _d: u32) -> Self {}
    fn tree(&self) -> Value { json!({"k": "tuple", "i": []}) }
}
impl<T> Val for PhantomData<T> {
    fn gen(_: &mut StdRng, _d: u32) -> Self { PhantomData }
    // a zero-sized marker: as a top-level type it is described as a unit composite
    fn tree(&self) -> Value { json!({"k": "composite", "f": []}) }
}
impl<T: Val> Val for Vec<T> {
    fn gen(rng: &mut StdRng, d: u32) -> Self { (0..len(rng, d)).map(|_| T::gen(rng, d + 1)).collect() }
    fn tree(&self) -> Value { json!({"k": "seq", "i": self.iter().map(|x| x.tree()).collect::<Vec<_>>()}) }
}
impl<T: Val> Val for VecDeque<T> {
    fn gen(rng: &mut StdRng, d: u32) -> Self {
        let mut v: VecDeque<T> = (0..len(rng, d)).map(|_| T::gen(rng, d + 1)).collect();
        if !v.is_empty() && rng.gen_bool(0.5) { v.rotate_left(1); } // make the ring buffer non-contiguous
        v
    }
    fn tree(&self) -> Value { json!({"k": "seq", "i": self.iter().map(|x| x.tree()).collect::<Vec<_>>()}) }
}
impl<T: Val> Val for Box<[T]> {
    fn gen(rng: &mut StdRng, d: u32) -> Self { Vec::<T>::gen(rng, d).into_boxed_slice() }
    fn tree(&self) -> Value { json!({"k": "seq", "i": self.iter().map(|x| x.tree()).collect::<Vec<_>>()}) }
}
impl<T: Val> Val for &'static [T] {
    fn gen(rng: &mut StdRng, d: u32) -> Self { Box::leak(Vec::<T>::gen(rng, d).into_boxed_slice()) }
    fn tree(&self) -> Value { json!({"k": "seq", "i": self.iter().map(|x| x.tree()).collect::<Vec<_>>()}) }
}
impl Val for &'static str {
    fn gen(rng: &mut StdRng, d: u32) -> Self { crate::leak(&String::gen(rng, d)) }
    fn tree(&self) -> Value { json!({"k": "str", "b": self.as_bytes()}) }
}
impl Val for Box<str> {
    fn gen(rng: &mut StdRng, d: u32) -> Self { String::gen(rng, d).into_boxed_str() }
    fn tree(&self) -> Value { json!({"k": "str", "b": self.as_bytes()}) }
}
impl<T: Val, const N: usize> Val for [T; N] {
    fn gen(rng: &mut StdRng, d: u32) -> Self { std::array::from_fn(|_| T::gen(rng, d + 1)) }
    fn tree(&self) -> Value { json!({"k": "array", "i": self.iter().map(|x| x.tree()).collect::<Vec<_>>()}) }
}
/// Is T (an alias of) PhantomData? Members of that type are zero-sized and not part of any described value
/// (a documented rule of the data model, C17): the oracle leaves them out wherever the library's builders do.
pub fn is_marker_ty<T: ?Sized>() -> bool {
    let mut n = std::any::type_name::<T>();
    loop {
        let m = n.trim_start_matches('&').trim_start_matches("mut ");
        let m = ["alloc::boxed::Box<", "alloc::rc::Rc<", "alloc::sync::Arc<"].iter().fold(m, |a, p| a.strip_prefix(p).unwrap_or(a));
        if m == n {
            break;
        }
        n = m;
    }
    n.starts_with("core::marker::PhantomData")
}
fn payload<T: Val>(x: &T) -> Vec<(Option<&'static str>, Value)> {
    if is_marker_ty::<T>() { vec![] } else { vec![(None, x.tree())] }
}
impl<T: Val> Val for Option<T> {
    fn gen(rng: &mut StdRng, d: u32) -> Self { if d > 3 || rng.gen_bool(0.4) { None } else { Some(T::gen(rng, d + 1)) } }
    fn tree(&self) -> Value {
        match self { None => variant("None", vec![]), Some(x) => variant("Some", payload(x)) }
    }
}
impl<T: Val, E: Val> Val for Result<T, E> {
    fn gen(rng: &mut StdRng, d: u32) -> Self { if rng.gen_bool(0.5) { Ok(T::gen(rng, d + 1)) } else { Err(E::gen(rng, d + 1)) } }
    fn tree(&self) -> Value {
        match self { Ok(x) => variant("Ok", payload(x)), Err(x) => variant("Err", payload(x)) }
    }
}
macro_rules! transparent {
    ($($w:ident),*) => { $(
        impl<T: Val> Val for $w<T> {
            fn gen(rng: &mut StdRng, d: u32) -> Self { $w::new(T::gen(rng, d)) }
            fn tree(&self) -> Value { (**self).tree() }
        }
    )* }
}
transparent!(Box, Rc, Arc);
impl<T: Val> Val for &'static T {
    fn gen(rng: &mut StdRng, d: u32) -> Self { Box::leak(Box::new(T::gen(rng, d))) }
    fn tree(&self) -> Value { (**self).tree() }
}
impl<T: Val> Val for &'static mut T {
    fn gen(rng: &mut StdRng, d: u32) -> Self { Box::leak(Box::new(T::gen(rng, d))) }
    fn tree(&self) -> Value { (**self).tree() }
}
// Cow<'static, T>: a one-field wrapper around the borrowed form
impl Val for Cow<'static, str> {
    fn gen(rng: &mut StdRng, d: u32) -> Self { if rng.gen_bool(0.5) { Cow::Owned(String::gen(rng, d)) } else { Cow::Borrowed(<&'static str>::gen(rng, d)) } }
    fn tree(&self) -> Value { unnamed(vec![json!({"k": "str", "b": self.as_bytes()})]) }
}
impl<T: Val + Clone + 'static> Val for Cow<'static, [T]> {
    fn gen(rng: &mut StdRng, d: u32) -> Self { if rng.gen_bool(0.5) { Cow::Owned(Vec::<T>::gen(rng, d)) } else { Cow::Borrowed(<&'static [T]>::gen(rng, d)) } }
    fn tree(&self) -> Value { unnamed(vec![json!({"k": "seq", "i": self.iter().map(|x| x.tree()).collect::<Vec<_>>()})]) }
}
impl<T: Val + Clone + 'static> Val for Cow<'static, T> {
    fn gen(rng: &mut StdRng, d: u32) -> Self { if rng.gen_bool(0.5) { Cow::Owned(T::gen(rng, d)) } else { Cow::Borrowed(<&'static T>::gen(rng, d)) } }
    fn tree(&self) -> Value { unnamed(vec![(**self).tree()]) }
}
impl<K: Val + Ord, V: Val> Val for BTreeMap<K, V> {
    fn gen(rng: &mut StdRng, d: u32) -> Self { (0..len(rng, d)).map(|_| (K::gen(rng, d + 1), V::gen(rng, d + 1))).collect() }
    fn tree(&self) -> Value {
        unnamed(vec![json!({"k": "seq", "i": self.iter().map(|(k, v)| json!({"k": "tuple", "i": [k.tree(), v.tree()]})).collect::<Vec<_>>()})])
    }
}
impl<T: Val + Ord> Val for BTreeSet<T> {
    fn gen(rng: &mut StdRng, d: u32) -> Self { (0..len(rng, d)).map(|_| T::gen(rng, d + 1)).collect() }
    fn tree(&self) -> Value { unnamed(vec![json!({"k": "seq", "i": self.iter().map(|x| x.tree()).collect::<Vec<_>>()})]) }
}
impl<T: Val + Ord> Val for BinaryHeap<T> {
    fn gen(rng: &mut StdRng, d: u32) -> Self { (0..len(rng, d)).map(|_| T::gen(rng, d + 1)).collect() }
    // encoded in the heap's internal iteration order
    fn tree(&self) -> Value { unnamed(vec![json!({"k": "seq", "i": self.iter().map(|x| x.tree()).collect::<Vec<_>>()})]) }
}
macro_rules! compact_val {
    ($($t:ty),*) => { $(
        impl Val for scale::Compact<$t> {
            fn gen(rng: &mut StdRng, _d: u32) -> Self {
                let b: [u128; 10] = [0, 63, 64, 16383, 16384, (1 << 30) - 1, 1 << 30, u32::MAX as u128, (u64::MAX as u128) + 1, u128::MAX];
                let v = if rng.gen_bool(0.7) { b[rng.gen_range(0..10)] } else { rng.gen::<u128>() >> rng.gen_range(0..128) };
                scale::Compact((v & (<$t>::MAX as u128)) as $t)
            }
            fn tree(&self) -> Value { json!({"k": "compact", "v": prim(&self.0.to_le_bytes())}) }
        }
    )* }
}
compact_val!(u8, u16, u32, u64, u128);
impl Val for scale::Compact<()> {
    fn gen(_: &mut StdRng, _d: u32) -> Self { scale::Compact(()) }
    fn tree(&self) -> Value { json!({"k": "compact", "v": {"k": "tuple", "i": []}}) }
}
impl<T: Val> Val for Range<T> {
    fn gen(rng: &mut StdRng, d: u32) -> Self { T::gen(rng, d + 1)..T::gen(rng, d + 1) }
    fn tree(&self) -> Value { named(vec![("start", self.start.tree()), ("end", self.end.tree())]) }
}
impl<T: Val> Val for RangeInclusive<T> {
    fn gen(rng: &mut StdRng, d: u32) -> Self { T::gen(rng, d + 1)..=T::gen(rng, d + 1) }
    fn tree(&self) -> Value { named(vec![("start", self.start().tree()), ("end", self.end().tree())]) }
}
impl Val for Duration {
    fn gen(rng: &mut StdRng, _d: u32) -> Self { Duration::new([0, 1, u64::MAX, 1u64 << 33][rng.gen_range(0..4)], rng.gen_range(0..1_000_000_000)) }
    fn tree(&self) -> Value { unnamed(vec![prim(&self.as_secs().to_le_bytes()), prim(&self.subsec_nanos().to_le_bytes())]) }
}
macro_rules! nonzero_val {
    ($($nz:ident : $t:ty),*) => { $(
        impl Val for std::num::$nz {
            fn gen(rng: &mut StdRng, _d: u32) -> Self {
                let v: $t = match rng.gen_range(0..4) { 0 => 1, 1 => <$t>::MAX, 2 => <$t>::MIN, _ => rng.gen() };
                std::num::$nz::new(if v == 0 { 1 } else { v }).unwrap()
            }
            fn tree(&self) -> Value { unnamed(vec![prim(&self.get().to_le_bytes())]) }
        }
    )* }
}
nonzero_val!(NonZeroU8: u8, NonZeroU16: u16, NonZeroU32: u32, NonZeroU64: u64, NonZeroU128: u128,
             NonZeroI8: i8, NonZeroI16: i16, NonZeroI32: i32, NonZeroI64: i64, NonZeroI128: i128);

macro_rules! tuple_val {
    ($($t:ident),+) => {
        impl<$($t: Val),+> Val for ($($t,)+) {
            fn gen(rng: &mut StdRng, d: u32) -> Self { ($($t::gen(rng, d + 1),)+) }
            #[allow(non_snake_case)]
            fn tree(&self) -> Value {
                let ($($t,)+) = self;
                // zero-sized PhantomData members are not part of the described value
                let items: Vec<(bool, Value)> = vec![$( (is_marker_ty::<$t>(), $t.tree()) ),+];
                let kept: Vec<Value> = items.into_iter().filter(|(ph, _)| !ph).map(|(_, t)| t).collect();
                json!({"k": "tuple", "i": kept})
            }
        }
    }
}
tuple_val!(A);
tuple_val!(A, B);
tuple_val!(A, B, C);
tuple_val!(A, B, C, D);
tuple_val!(A, B, C, D, E);
tuple_val!(A, B, C, D, E, F);
tuple_val!(A, B, C, D, E, F, G);
tuple_val!(A, B, C, D, E, F, G, H);
tuple_val!(A, B, C, D, E, F, G, H, I);
tuple_val!(A, B, C, D, E, F, G, H, I, J);
tuple_val!(A, B, C, D, E, F, G, H, I, J, K);
tuple_val!(A, B, C, D, E, F, G, H, I, J, K, L);
tuple_val!(A, B, C, D, E, F, G, H, I, J, K, L, M);
tuple_val!(A, B, C, D, E, F, G, H, I, J, K, L, M, N);
tuple_val!(A, B, C, D, E, F, G, H, I, J, K, L, M, N, O);
tuple_val!(A, B, C, D, E, F, G, H, I, J, K, L, M, N, O, P);
tuple_val!(A, B, C, D, E, F, G, H, I, J, K, L, M, N, O, P, Q);
tuple_val!(A, B, C, D, E, F, G, H, I, J, K, L, M, N, O, P, Q, R);

macro_rules! bitvec_val {
    ($($s:ty),*) => { $(
        impl<O: bitvec::order::BitOrder> Val for bitvec::vec::BitVec<$s, O> {
            fn gen(rng: &mut StdRng, _d: u32) -> Self {
                let n = [0usize, 1, 7, 8, 9, 16, 17, 33, 64, 65][rng.gen_range(0..10)];
                (0..n).map(|_| rng.gen::<bool>()).collect()
            }
            fn tree(&self) -> Value { json!({"k": "bits", "b": self.iter().map(|b| *b as u8).collect::<Vec<_>>()}) }
        }
    )* }
}
bitvec_val!(u8, u16, u32, u64);
