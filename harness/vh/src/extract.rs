//! Universe extraction for REAL Rust types (C02's decisive leg): starting from root MetaTypes, walk the
//! compile-time graph through `MetaType::type_info()` and, in parallel, register every node in one real
//! `Registry`; emit for each reachable identity its TypeId, the id the registry returned and its
//! compile-time definition (children as TypeIds), plus the final portable registry.
use crate::proj::{self, Mode};
use crate::texpr::{meta_body, tid};
use scale_info::{form::MetaForm, Field, MetaType, PortableRegistry, Registry, Type, TypeDef};
use serde_json::{json, Value};
use std::collections::BTreeMap;

fn children(t: &Type<MetaForm>) -> Vec<MetaType> {
    let mut out: Vec<MetaType> = t.type_params.iter().filter_map(|p| p.ty).collect();
    let fs = |f: &[Field<MetaForm>], out: &mut Vec<MetaType>| out.extend(f.iter().map(|x| x.ty));
    match &t.type_def {
        TypeDef::Composite(c) => fs(&c.fields, &mut out),
        TypeDef::Variant(v) => v.variants.iter().for_each(|x| fs(&x.fields, &mut out)),
        TypeDef::Sequence(s) => out.push(s.type_param),
        TypeDef::Array(a) => out.push(a.type_param),
        TypeDef::Tuple(tp) => out.extend(tp.fields.iter().cloned()),
        TypeDef::Primitive(_) => {}
        TypeDef::Compact(c) => out.push(c.type_param),
        TypeDef::BitSequence(b) => {
            out.push(b.bit_store_type);
            out.push(b.bit_order_type)
        }
    }
    out
}

/// {"ev":"Faithful","nodes":[{"tid","id","info"}...],"types":[portable registry]}
pub fn faithful_event(roots: &[MetaType]) -> Value {
    let mut reg = Registry::new();
    let mut seen: BTreeMap<String, Value> = BTreeMap::new();
    let mut work: Vec<MetaType> = roots.to_vec();
    while let Some(m) = work.pop() {
        // keyed by identity AND definition: two types that (wrongly) share an identity but describe
        // themselves differently must both be checked against what their id resolves to
        let t = tid(&m).as_str().unwrap().to_string();
        let info = m.type_info();
        let body = meta_body(&info);
        let key = format!("{t} {body}");
        if seen.contains_key(&key) {
            continue;
        }
        let id = reg.register_type(&m).id;
        seen.insert(key, json!({"tid": t, "id": id, "info": body}));
        work.extend(children(&info));
    }
    let p: PortableRegistry = reg.into();
    json!({"ev": "Faithful", "nodes": seen.values().collect::<Vec<_>>(), "types": proj::registry(Mode::Plain, &p)})
}
