CONSTANTS MaxLen = 6 MaxSegs = 0 MaxTab = 0 Mode = "str"
SPECIFICATION Spec
INVARIANT DFAisDecl
CHECK_DEADLOCK FALSE
