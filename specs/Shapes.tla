------------------------------- MODULE Shapes -------------------------------
(* Concrete definitions for abstract graph nodes: node t with ordered child *)
(* references cs gets a definition whose kind depends on t and Len(cs), so  *)
(* that the bounded-exhaustive graph enumerations of MC_Registry and        *)
(* MC_Retain exercise every definition kind, type parameters (with and      *)
(* without a type), named/unnamed fields, docs, type names and indices.     *)
(* Generic in what a reference is (spelling or id).                         *)
EXTENDS SITypes, TLC
Nm(t) == "N" \o ToString(t)
F(name, ref, tn, docs) == [name |-> name, ty |-> ref, tn |-> tn, docs |-> docs]
ShapeDef(t, cs, sel) ==
  LET k == Len(cs) IN
  CASE k = 0 /\ sel % 6 = 0 -> [tag |-> "primitive", prim |-> "u8"]
    [] k = 0 /\ sel % 6 = 1 -> [tag |-> "composite", fields |-> <<>>]
    [] k = 0 /\ sel % 6 = 2 -> [tag |-> "variant", variants |-> <<[name |-> "A", fields |-> <<>>, index |-> 7, docs |-> <<"dv">>]>>]
    \* (selectors 3..5 are reached by callers that salt the selector of leaf nodes: MC_Retain)
    [] k = 0 /\ sel % 6 = 3 -> [tag |-> "tuple", tys |-> <<>>]                       \* the unit type
    [] k = 0 /\ sel % 6 = 4 -> [tag |-> "variant", variants |-> <<>>]                \* an enum without variants
    [] k = 0 /\ sel % 6 = 5 -> [tag |-> "primitive", prim |-> "u256"]
    [] k = 1 /\ sel % 4 = 0 -> [tag |-> "sequence", ty |-> cs[1]]
    [] k = 1 /\ sel % 4 = 1 -> [tag |-> "array", len |-> IF t % 2 = 0 THEN 0 ELSE 3, ty |-> cs[1]]      \* also the empty array: it still refers to its element type
    [] k = 1 /\ sel % 4 = 2 -> [tag |-> "compact", ty |-> cs[1]]
    [] k = 1 /\ sel % 4 = 3 /\ t % 2 = 0 -> [tag |-> "composite", fields |-> <<F(<<"x">>, cs[1], <<"X">>, <<"fx">>)>>]
    [] k = 1 /\ sel % 4 = 3 /\ t % 2 = 1 -> [tag |-> "composite", fields |-> <<>>]     \* a marker type: a leaf definition whose only reference is a type parameter
    [] k = 2 /\ sel % 4 = 0 -> [tag |-> "bitsequence", store |-> cs[1], order |-> cs[2]]
    [] k = 2 /\ sel % 4 = 1 -> [tag |-> "tuple", tys |-> <<cs[1], cs[2]>>]
    [] k = 2 /\ sel % 4 = 2 -> [tag |-> "variant", variants |->
                                << [name |-> "A", fields |-> <<F(<<>>, cs[1], <<>>, <<>>)>>, index |-> 1, docs |-> <<>>],
                                   [name |-> "B", fields |-> <<F(<<"b">>, cs[2], <<"Tb">>, <<"d1", "d2">>)>>, index |-> 0, docs |-> <<"vb">>] >>]
    [] k = 2 /\ sel % 4 = 3 -> [tag |-> "composite", fields |-> <<F(<<"y">>, cs[2], <<>>, <<>>)>>]
    [] k = 3 -> [tag |-> "variant", variants |->
                                << [name |-> "A", fields |-> <<F(<<>>, cs[2], <<>>, <<>>), F(<<>>, cs[3], <<"T3">>, <<>>)>>, index |-> 9, docs |-> <<>>] >>]
ShapeParams(t, cs, sel) == IF Len(cs) = 1 /\ sel % 4 = 3 /\ t % 2 = 1 THEN <<[name |-> "T", ty |-> Some(cs[1])]>>
                      \* parameters on definitions that are neither composite nor variant (a bounded collection presenting
                      \* as a sequence, a generic alias of a tuple): hand-written and decoded types may have them
                      ELSE IF Len(cs) = 1 /\ sel % 4 = 0 /\ t >= 2 THEN <<[name |-> "T", ty |-> Some(cs[1])], [name |-> "S", ty |-> None]>>
                      ELSE IF Len(cs) = 2 /\ sel % 4 = 1 /\ t % 2 = 1 THEN <<[name |-> "B", ty |-> Some(cs[2])]>>
                      ELSE IF Len(cs) = 2 /\ sel % 4 = 3
                      THEN <<[name |-> "T", ty |-> Some(cs[1])], [name |-> "U", ty |-> None]>>
                      ELSE IF Len(cs) = 2 /\ sel % 4 = 2        \* a skipped parameter BEFORE one that carries a type
                      THEN <<[name |-> "S", ty |-> None], [name |-> "T", ty |-> Some(cs[2])]>>
                      ELSE IF Len(cs) = 3 THEN <<[name |-> "T", ty |-> Some(cs[1])]>> ELSE <<>>
\* `sel` selects among the shapes available for Len(cs) references; callers derive it from the node and its
\* children so that every shape occurs already in 3-node graphs
\* every third node lives in a module and carries a name written as RAW identifiers (r#mod::r#N1): the marker is part
\* of the segment text and must survive every conversion
ShapePath(t) == IF t % 3 = 1 THEN <<"r#mod", "r#" \o Nm(t)>> ELSE <<"m", Nm(t)>>
\* (leaf selector 5 is the bare `bool` primitive - no path, no docs: the very value retain uses as its placeholder)
ShapeBody(t, cs, sel) == IF Len(cs) = 0 /\ sel % 6 = 5 THEN [path |-> <<>>, params |-> <<>>, def |-> [tag |-> "primitive", prim |-> "bool"], docs |-> <<>>] ELSE
                         [path |-> ShapePath(t), params |-> ShapeParams(t, cs, sel), def |-> ShapeDef(t, cs, sel), docs |-> <<"doc " \o Nm(t)>>]
=============================================================================
