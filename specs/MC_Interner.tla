---------------------------- MODULE MC_Interner ----------------------------
(* Bounded exhaustive design check + one-line-per-transition emission.    *)
EXTENDS Interner, Json
CONSTANTS V, MaxProbe
Next == \/ \E v \in V : Intern(v) \/ Get(v) \/ BRegister(v)
        \/ \E i \in 0..MaxProbe : Resolve(i) \/ BGet(i)
        \/ Elements \/ BNextId \/ BFinish
Spec == IInit /\ [][Next]_ivars
View == ivec
\* a new value always gets the index next_type_id announced
NextIdAnnounced == [][\A v \in V : (ret'[1] = "register" /\ ret'[2] = v /\ ~Known(v)) => ret'[3] = Len(ivec)]_ivars
Trans == PrintT(<<"TRANS", ToJson([from |-> ivec, ret |-> ret', to |-> ivec'])>>)
=============================================================================
