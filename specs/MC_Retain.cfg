CONSTANTS N = 3 MaxKids = 2
SPECIFICATION Spec
INVARIANT DoneOK PlaceholderNeverRead SlotsFilled
PROPERTY Terminates
CHECK_DEADLOCK FALSE
