CONSTANTS N = 3 MaxKids = 2 WithOutside = TRUE KindShifts = {0}
SPECIFICATION Spec
INVARIANT DoneOK PlaceholderNeverRead SlotsFilled
PROPERTY Terminates
CHECK_DEADLOCK FALSE
