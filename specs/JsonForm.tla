------------------------------ MODULE JsonForm ------------------------------
(***************************************************************************)
(* The documented JSON form of a PortableRegistry.                         *)
(*                                                                         *)
(* JSON values are a tagged tree ("JV"):                                   *)
(*   [t |-> "o", k |-> Seq(key), v |-> Seq(JV)]   object (parallel seqs)   *)
(*   [t |-> "a", v |-> Seq(JV)]                   array                    *)
(*   [t |-> "s", b |-> Seq(byte)]                 string (UTF-8 bytes)     *)
(*   [t |-> "n", int |-> BOOLEAN, neg |-> BOOLEAN, hi |-> Nat, lo |-> Nat] *)
(*                                       number = hi * 65536 + lo          *)
(*   [t |-> "b", v |-> BOOLEAN]   [t |-> "z"]     boolean, null            *)
(* Registries are in the wide data model of Wire (u32 = 4 LE bytes,        *)
(* strings = UTF-8 bytes).                                                 *)
(*                                                                         *)
(* JsonOf(r) is the documented shape: keys types,id,type,path,params,def,  *)
(* docs,name,typeName,index,fields,variants,len; lower-case definition     *)
(* tags; empty path/params/fields/variants/docs and absent names omitted.  *)
(* RegOfJson is its inverse with the documented defaults; MC_Json checks   *)
(* RegOfJson(JsonOf(r)) = r over the presence lattice.                     *)
(***************************************************************************)
EXTENDS Naturals, Sequences, FiniteSets, SequencesExt, TLC

Obj(ks, vs) == [t |-> "o", k |-> ks, v |-> vs]
Arr(vs) == [t |-> "a", v |-> vs]
StrJ(bs) == [t |-> "s", b |-> bs]
NumQ(q) == [t |-> "n", int |-> TRUE, neg |-> FALSE, hi |-> q[3] + 256 * q[4], lo |-> q[1] + 256 * q[2]]
NumN(n) == [t |-> "n", int |-> TRUE, neg |-> FALSE, hi |-> 0, lo |-> n]
Null == [t |-> "z"]

\* build an object from <<key, value, present>> triples, skipping absent members
RECURSIVE ObjOf(_)
ObjOf(ms) == IF ms = <<>> THEN Obj(<<>>, <<>>) ELSE
  LET r == ObjOf(Tail(ms)) m == Head(ms) IN
  IF m[3] THEN Obj(<<m[1]>> \o r.k, <<m[2]>> \o r.v) ELSE r

Strs(ss) == Arr([i \in 1..Len(ss) |-> StrJ(ss[i])])
\* ASCII bytes of the lower-case primitive tags
PrimBytes(p) ==
  CASE p = "bool" -> <<98,111,111,108>> [] p = "char" -> <<99,104,97,114>> [] p = "str" -> <<115,116,114>>
    [] p = "u8" -> <<117,56>> [] p = "u16" -> <<117,49,54>> [] p = "u32" -> <<117,51,50>> [] p = "u64" -> <<117,54,52>>
    [] p = "u128" -> <<117,49,50,56>> [] p = "u256" -> <<117,50,53,54>>
    [] p = "i8" -> <<105,56>> [] p = "i16" -> <<105,49,54>> [] p = "i32" -> <<105,51,50>> [] p = "i64" -> <<105,54,52>>
    [] p = "i128" -> <<105,49,50,56>> [] p = "i256" -> <<105,50,53,54>>
PrimNames == {"bool","char","str","u8","u16","u32","u64","u128","u256","i8","i16","i32","i64","i128","i256"}

FieldJ(f) == ObjOf(<< <<"name", IF f.name = <<>> THEN Null ELSE StrJ(f.name[1]), f.name # <<>> >>,
                     <<"type", NumQ(f.ty), TRUE>>,
                     <<"typeName", IF f.tn = <<>> THEN Null ELSE StrJ(f.tn[1]), f.tn # <<>> >>,
                     <<"docs", Strs(f.docs), f.docs # <<>> >> >>)
FieldsJ(fs) == Arr([i \in 1..Len(fs) |-> FieldJ(fs[i])])
VariantJ(v) == ObjOf(<< <<"name", StrJ(v.name), TRUE>>,
                       <<"fields", FieldsJ(v.fields), v.fields # <<>> >>,
                       <<"index", NumN(v.index), TRUE>>,
                       <<"docs", Strs(v.docs), v.docs # <<>> >> >>)
ParamJ(p) == Obj(<<"name", "type">>, <<StrJ(p.name), IF p.ty = <<>> THEN Null ELSE NumQ(p.ty[1])>>)
DefJ(d) ==
  CASE d.tag = "composite"   -> Obj(<<"composite">>, <<ObjOf(<< <<"fields", FieldsJ(d.fields), d.fields # <<>> >> >>)>>)
    [] d.tag = "variant"     -> Obj(<<"variant">>, <<ObjOf(<< <<"variants", Arr([i \in 1..Len(d.variants) |-> VariantJ(d.variants[i])]), d.variants # <<>> >> >>)>>)
    [] d.tag = "sequence"    -> Obj(<<"sequence">>, <<Obj(<<"type">>, <<NumQ(d.ty)>>)>>)
    [] d.tag = "array"       -> Obj(<<"array">>, <<Obj(<<"len", "type">>, <<NumQ(d.len), NumQ(d.ty)>>)>>)
    [] d.tag = "tuple"       -> Obj(<<"tuple">>, <<Arr([i \in 1..Len(d.tys) |-> NumQ(d.tys[i])])>>)
    [] d.tag = "primitive"   -> Obj(<<"primitive">>, <<StrJ(PrimBytes(d.prim))>>)
    [] d.tag = "compact"     -> Obj(<<"compact">>, <<Obj(<<"type">>, <<NumQ(d.ty)>>)>>)
    [] d.tag = "bitsequence" -> Obj(<<"bitsequence">>, <<Obj(<<"bit_store_type", "bit_order_type">>, <<NumQ(d.store), NumQ(d.order)>>)>>)
TypeJ(e) == ObjOf(<< <<"path", Strs(e.path), e.path # <<>> >>,
                    <<"params", Arr([i \in 1..Len(e.params) |-> ParamJ(e.params[i])]), e.params # <<>> >>,
                    <<"def", DefJ(e.def), TRUE>>,
                    <<"docs", Strs(e.docs), e.docs # <<>> >> >>)
EntryJ(e) == Obj(<<"id", "type">>, <<NumQ(e.id), TypeJ(e)>>)
JsonOf(r) == Obj(<<"types">>, <<Arr([i \in 1..Len(r) |-> EntryJ(r[i])])>>)

(* equality of JSON values up to the order of object members *)
RECURSIVE Canon(_)
Canon(j) ==
  CASE j.t = "o" -> [t |-> "o", m |-> [key \in {j.k[i] : i \in 1..Len(j.k)} |-> Canon(j.v[CHOOSE i \in 1..Len(j.k) : j.k[i] = key])], n |-> Len(j.k)]
    [] j.t = "a" -> [t |-> "a", v |-> [i \in 1..Len(j.v) |-> Canon(j.v[i])]]
    [] OTHER -> j
JEq(a, b) == Canon(a) = Canon(b)

(* ---------- inverse, with the documented defaults ---------- *)
Has(j, key) == \E i \in 1..Len(j.k) : j.k[i] = key
Get(j, key) == j.v[CHOOSE i \in 1..Len(j.k) : j.k[i] = key]
QOf(n) == <<n.lo % 256, n.lo \div 256, n.hi % 256, n.hi \div 256>>
StrsOf(j) == [i \in 1..Len(j.v) |-> j.v[i].b]
OrEmpty(j, key) == IF Has(j, key) THEN Get(j, key).v ELSE <<>>
PrimOf(bs) == CHOOSE p \in PrimNames : PrimBytes(p) = bs
FieldOf(j) == [name |-> IF Has(j, "name") /\ Get(j, "name").t = "s" THEN <<Get(j, "name").b>> ELSE <<>>,
               ty |-> QOf(Get(j, "type")),
               tn |-> IF Has(j, "typeName") /\ Get(j, "typeName").t = "s" THEN <<Get(j, "typeName").b>> ELSE <<>>,
               docs |-> IF Has(j, "docs") THEN StrsOf(Get(j, "docs")) ELSE <<>>]
FieldsOf(vs) == [i \in 1..Len(vs) |-> FieldOf(vs[i])]
VariantOf(j) == [name |-> Get(j, "name").b, fields |-> FieldsOf(OrEmpty(j, "fields")), index |-> Get(j, "index").lo,
                 docs |-> IF Has(j, "docs") THEN StrsOf(Get(j, "docs")) ELSE <<>>]
DefOfJ(j) ==
  LET tag == j.k[1] p == j.v[1] IN
  CASE tag = "composite"   -> [tag |-> tag, fields |-> FieldsOf(OrEmpty(p, "fields"))]
    [] tag = "variant"     -> [tag |-> tag, variants |-> LET vs == OrEmpty(p, "variants") IN [i \in 1..Len(vs) |-> VariantOf(vs[i])]]
    [] tag = "sequence"    -> [tag |-> tag, ty |-> QOf(Get(p, "type"))]
    [] tag = "array"       -> [tag |-> tag, len |-> QOf(Get(p, "len")), ty |-> QOf(Get(p, "type"))]
    [] tag = "tuple"       -> [tag |-> tag, tys |-> [i \in 1..Len(p.v) |-> QOf(p.v[i])]]
    [] tag = "primitive"   -> [tag |-> tag, prim |-> PrimOf(p.b)]
    [] tag = "compact"     -> [tag |-> tag, ty |-> QOf(Get(p, "type"))]
    [] tag = "bitsequence" -> [tag |-> tag, store |-> QOf(Get(p, "bit_store_type")), order |-> QOf(Get(p, "bit_order_type"))]
ParamOf(j) == [name |-> Get(j, "name").b, ty |-> IF Has(j, "type") /\ Get(j, "type").t = "n" THEN <<QOf(Get(j, "type"))>> ELSE <<>>]
EntryOf(j) == LET ty == Get(j, "type") IN
  [id |-> QOf(Get(j, "id")),
   path |-> IF Has(ty, "path") THEN StrsOf(Get(ty, "path")) ELSE <<>>,
   params |-> LET ps == OrEmpty(ty, "params") IN [i \in 1..Len(ps) |-> ParamOf(ps[i])],
   def |-> DefOfJ(Get(ty, "def")),
   docs |-> IF Has(ty, "docs") THEN StrsOf(Get(ty, "docs")) ELSE <<>>]
RegOfJson(j) == LET ts == Get(j, "types").v IN [i \in 1..Len(ts) |-> EntryOf(ts[i])]

JsonRoundTrip(r) == RegOfJson(JsonOf(r)) = r

\* the keys the documented shape may use, and the lower-case definition tags
DocKeys == {"types","id","type","path","params","def","docs","name","typeName","index","fields","variants","len",
            "composite","variant","sequence","array","tuple","primitive","compact","bitsequence","bit_store_type","bit_order_type"}
RECURSIVE KeysOf(_)
KeysOf(j) == CASE j.t = "o" -> {j.k[i] : i \in 1..Len(j.k)} \cup UNION {KeysOf(j.v[i]) : i \in 1..Len(j.v)}
               [] j.t = "a" -> UNION {KeysOf(j.v[i]) : i \in 1..Len(j.v)}
               [] OTHER -> {}
=============================================================================
