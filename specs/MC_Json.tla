------------------------------ MODULE MC_Json ------------------------------
(***************************************************************************)
(* Mode "shape": registries over the PRESENCE LATTICE (every definition    *)
(*   kind x every combination of empty / non-empty optional parts, plus    *)
(*   non-ASCII strings and boundary ids); checks that the documented shape *)
(*   loses nothing (RegOfJson o JsonOf = id) and uses only documented      *)
(*   keys; prints <<registry, JSON>> cases.                                *)
(* Mode "fault": JSON fault machine for C14: starting from JsonOf(base),   *)
(*   replace any node by null / 0 / -1 / 2^32 / 1.5 / "x" / [] / {} / true,*)
(*   drop a member, rename a member, add an unknown member; depth          *)
(*   <= MaxFaults; prints each document as a case.                         *)
(***************************************************************************)
EXTENDS JsonForm, Json
CONSTANTS Mode, MaxFaults
VARIABLES reg, doc, nf, what
vars == <<reg, doc, nf, what>>
Q(n) == <<n % 256, (n \div 256) % 256, (n \div 65536) % 256, (n \div 16777216) % 256>>
QMAX == <<255, 255, 255, 255>>
Sa == <<97>>  Se == <<195, 169, 240, 159, 152, 128>>  Sq == <<34, 92, 10>>    \* "a", "e-acute + emoji", quote backslash newline
S0 == <<>>                                                                       \* the empty string: present, not absent
Fld(n, t, tn, d) == [name |-> n, ty |-> t, tn |-> tn, docs |-> d]
Fields == {Fld(n, Q(1), tn, d) : n \in {<<>>, <<Sa>>, <<S0>>}, tn \in {<<>>, <<Se>>, <<S0>>}, d \in {<<>>, <<Sa, Sq>>, <<S0>>}}
Var(n, fs, i, d) == [name |-> n, fields |-> fs, index |-> i, docs |-> d]
Variants == {Var(n, fs, i, d) : n \in {Sa, S0}, fs \in {<<>>, <<Fld(<<>>, Q(0), <<>>, <<>>)>>}, i \in {0, 255}, d \in {<<>>, <<Se>>, <<S0>>}}
Defs == {[tag |-> "composite", fields |-> <<>>]} \cup {[tag |-> "composite", fields |-> <<f>>] : f \in Fields}
   \cup {[tag |-> "composite", fields |-> <<Fld(<<Sa>>, QMAX, <<>>, <<>>), Fld(<<Se>>, Q(65536), <<Sa>>, <<>>)>>]}
   \cup {[tag |-> "variant", variants |-> <<>>]} \cup {[tag |-> "variant", variants |-> <<v>>] : v \in Variants}
   \cup {[tag |-> "variant", variants |-> <<Var(Sa, <<>>, 0, <<>>), Var(Se, <<>>, 1, <<>>)>>]}
   \cup {[tag |-> "sequence", ty |-> t] : t \in {Q(0), QMAX}}
   \cup {[tag |-> "array", len |-> n, ty |-> Q(2)] : n \in {Q(0), Q(65535), Q(65536), QMAX}}
   \cup {[tag |-> "tuple", tys |-> ts] : ts \in {<<>>, <<Q(0)>>, <<Q(3), QMAX>>}}
   \cup {[tag |-> "primitive", prim |-> p] : p \in PrimNames}
   \cup {[tag |-> "compact", ty |-> Q(7)], [tag |-> "bitsequence", store |-> Q(1), order |-> Q(258)]}
Prm(n, t) == [name |-> n, ty |-> t]
ParamSets == {<<>>, <<Prm(Sa, <<>>)>>, <<Prm(Sa, <<Q(0)>>)>>, <<Prm(Se, <<QMAX>>), Prm(Sa, <<>>)>>, <<Prm(S0, <<>>)>>, <<Prm(S0, <<Q(0)>>)>>}
Paths == {<<>>, <<Sa>>, <<Sa, Se>>, <<S0>>, <<Sa, S0>>, <<S0, Sa>>, <<S0, S0>>}
DocSets == {<<>>, <<Sa>>, <<Se, <<>>, Sq>>, <<S0>>}
Ty(i, p, ps, d, dc) == [id |-> i, path |-> p, params |-> ps, def |-> d, docs |-> dc]
D0 == [tag |-> "primitive", prim |-> "u8"]
Regs ==    {<<Ty(Q(0), p, <<>>, d, dc)>> : d \in Defs, p \in {<<>>, <<Sa>>, <<S0>>}, dc \in {<<>>, <<Sa>>}}
      \cup {<<Ty(i, p, ps, D0, dc)>> : i \in {Q(0), Q(65536), QMAX}, p \in Paths, ps \in ParamSets, dc \in DocSets}
      \cup {<<>>, <<Ty(Q(1), <<>>, <<>>, D0, <<>>), Ty(Q(0), <<Sa>>, <<>>, [tag |-> "sequence", ty |-> Q(1)], <<>>)>>}
RegList == SetToSeq(Regs)
B1 == <<Ty(Q(0), <<Sa, Sa>>, <<Prm(Sa, <<Q(1)>>), Prm(Se, <<>>)>>, [tag |-> "composite", fields |-> <<Fld(<<Sa>>, Q(1), <<Sa>>, <<Sa>>), Fld(<<>>, Q(2), <<>>, <<>>)>>], <<Se>>),
        Ty(Q(1), <<>>, <<>>, [tag |-> "primitive", prim |-> "u32"], <<>>),
        Ty(Q(2), <<>>, <<>>, [tag |-> "array", len |-> Q(4), ty |-> Q(1)], <<>>)>>
B2 == <<Ty(Q(0), <<Sa>>, <<>>, [tag |-> "variant", variants |-> <<Var(Sa, <<>>, 0, <<>>), Var(Se, <<Fld(<<>>, Q(1), <<>>, <<>>)>>, 255, <<Sa>>)>>], <<>>),
        Ty(Q(1), <<>>, <<>>, [tag |-> "tuple", tys |-> <<Q(1), Q(0)>>], <<>>)>>
B3 == <<Ty(Q(0), <<>>, <<>>, [tag |-> "bitsequence", store |-> Q(1), order |-> Q(2)], <<>>),
        Ty(Q(1), <<>>, <<>>, [tag |-> "compact", ty |-> Q(2)], <<>>),
        Ty(Q(2), <<>>, <<>>, [tag |-> "sequence", ty |-> Q(0)], <<>>)>>
\* strings that are special to someone's validation (bare raw prefix, empty, raw identifier, leading digit, keyword)
Sr == <<114, 35>>  Srt == <<114, 35, 116, 121, 112, 101>>  S9 == <<57, 120>>  Skw == <<115, 101, 108, 102>>
B4 == <<Ty(Q(0), <<Sr, S0, Srt, S9, Skw>>, <<Prm(Sr, <<Q(1)>>), Prm(S0, <<>>)>>,
           [tag |-> "composite", fields |-> <<Fld(<<Sr>>, Q(1), <<Sr>>, <<Sr, S0>>), Fld(<<S0>>, Q(1), <<S9>>, <<>>)>>], <<Sr>>),
        Ty(Q(1), <<S0>>, <<>>, [tag |-> "variant", variants |-> <<Var(Sr, <<>>, 0, <<Sr>>), Var(S0, <<Fld(<<Skw>>, Q(0), <<>>, <<>>)>>, 1, <<>>)>>], <<>>)>>
Bases == <<B1, B2, B3, B4>>

RECURSIVE PathsOf(_)
PathsOf(j) == {<<>>} \cup (IF j.t \in {"o", "a"} THEN UNION {{<<i>> \o p : p \in PathsOf(j.v[i])} : i \in 1..Len(j.v)} ELSE {})
RECURSIVE NodeAt(_, _)
NodeAt(j, p) == IF p = <<>> THEN j ELSE NodeAt(j.v[p[1]], Tail(p))
RECURSIVE SetAt(_, _, _)
SetAt(j, p, new) == IF p = <<>> THEN new ELSE [j EXCEPT !.v[p[1]] = SetAt(@, Tail(p), new)]
Without(s, i) == SubSeq(s, 1, i - 1) \o SubSeq(s, i + 1, Len(s))
Hostile == { Null, NumN(0), [t |-> "n", int |-> TRUE, neg |-> TRUE, hi |-> 0, lo |-> 1],
             [t |-> "n", int |-> TRUE, neg |-> FALSE, hi |-> 65536, lo |-> 0], [t |-> "n", int |-> TRUE, neg |-> FALSE, hi |-> 0, lo |-> 256],
             [t |-> "n", int |-> FALSE, neg |-> FALSE, hi |-> 0, lo |-> 1], StrJ(<<120>>), Arr(<<>>), Obj(<<>>, <<>>),
             [t |-> "b", v |-> TRUE], Arr(<<Null>>), Obj(<<"composite", "variant">>, <<Obj(<<>>, <<>>), Obj(<<>>, <<>>)>>) }
Init == /\ nf = 0 /\ what = <<"base">>
        /\ IF Mode = "shape" THEN \E i \in 1..Len(RegList) : reg = RegList[i] /\ doc = JsonOf(RegList[i])
           ELSE \E i \in 1..Len(Bases) : reg = Bases[i] /\ doc = JsonOf(Bases[i])
Replace == \E p \in PathsOf(doc) : \E h \in Hostile : h # NodeAt(doc, p) /\ doc' = SetAt(doc, p, h) /\ what' = <<"replace", p>>
ObjPaths == {p \in PathsOf(doc) : NodeAt(doc, p).t = "o"}
DropKey == \E p \in ObjPaths : LET n == NodeAt(doc, p) IN \E i \in 1..Len(n.k) :
              doc' = SetAt(doc, p, Obj(Without(n.k, i), Without(n.v, i))) /\ what' = <<"drop", p, n.k[i]>>
RenameKey == \E p \in ObjPaths : LET n == NodeAt(doc, p) IN \E i \in 1..Len(n.k) :
              doc' = SetAt(doc, p, Obj([n.k EXCEPT ![i] = @ \o "X"], n.v)) /\ what' = <<"rename", p, n.k[i]>>
AddKey == \E p \in ObjPaths : LET n == NodeAt(doc, p) IN \E h \in {Null, NumN(1)} :
              doc' = SetAt(doc, p, Obj(Append(n.k, "extra"), Append(n.v, h))) /\ what' = <<"add", p>>
DropElem == \E p \in PathsOf(doc) : LET n == NodeAt(doc, p) IN n.t = "a" /\ \E i \in 1..Len(n.v) :
              doc' = SetAt(doc, p, Arr(Without(n.v, i))) /\ what' = <<"dropelem", p, i>>
Next == /\ Mode = "fault" /\ nf < MaxFaults /\ nf' = nf + 1 /\ reg' = reg
        /\ (Replace \/ DropKey \/ RenameKey \/ AddKey \/ DropElem)
Spec == Init /\ [][Next]_vars
ShapeOK == Mode = "shape" => JsonRoundTrip(reg) /\ KeysOf(doc) \subseteq DocKeys
EmitShape == Mode = "shape" => PrintT(<<"CASE", ToJson([reg |-> reg, json |-> doc])>>)
EmitFault == Mode = "fault" => PrintT(<<"CASE", ToJson([json |-> doc, fault |-> what])>>)
View == doc
=============================================================================
