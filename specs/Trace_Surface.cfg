SPECIFICATION XSpec
CONSTRAINT Track
POSTCONDITION Accepted
CHECK_DEADLOCK FALSE
