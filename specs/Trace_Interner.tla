--------------------------- MODULE Trace_Interner ---------------------------
(* Implementation -> specification: a recorded sequence of real calls on    *)
(* Interner<T> / PortableRegistryBuilder must be a behaviour of Interner,   *)
(* with every logged result equal to the specification's `ret`, and the     *)
(* table invariants holding after every call.                               *)
EXTENDS Interner, Json, IOUtils
Rec == ndJsonDeserialize(IOEnv.TRACE)
VARIABLE l
tvars == <<imap, ivec, ret, l>>
TInit == IInit /\ l = 1
TReset == /\ l <= Len(Rec) /\ Rec[l].ev = "reset"
          /\ imap' = <<>> /\ ivec' = <<>> /\ ret' = <<"init">> /\ l' = l + 1
TCall == /\ l <= Len(Rec) /\ Rec[l].ev = "call"
         /\ LET r == Rec[l].ret
                op == r[1] IN
            /\ CASE op = "intern"   -> Intern(r[2])
                 [] op = "get"      -> Get(r[2])
                 [] op = "resolve"  -> Resolve(r[2])
                 [] op = "elements" -> Elements
                 [] op = "register" -> BRegister(r[2])
                 [] op = "next_type_id" -> BNextId
                 [] op = "bget"     -> BGet(r[2])
                 [] op = "finish"   -> BFinish
            /\ ret' = r                  \* the logged result is the specification's
         /\ l' = l + 1
TNext == TReset \/ TCall
TSpec == TInit /\ [][TNext]_tvars
Track == TLCSet(1, l)
Accepted == IF TLCGet(1) = Len(Rec) + 1 THEN TRUE
            ELSE Print(<<"REJECTED at event", TLCGet(1), Rec[TLCGet(1)]>>, FALSE)
=============================================================================
