------------------------------ MODULE RegHooks ------------------------------
(***************************************************************************)
(* The interning discipline of Registry::register_type, as a state machine *)
(* over the events the cfg-guarded hooks of /repo log (src/verif_hooks.rs): *)
(*                                                                         *)
(*   enter(t)           register_type was called for identity t             *)
(*   exit(t, id, ins)   it returns symbol id; ins = "t was new"             *)
(*   finish(ids)        the registry is converted and lists these ids       *)
(*                                                                         *)
(* It is the part of Registry.tla that needs no knowledge of the type       *)
(* graph, so it can judge executions whose types the specification has      *)
(* never seen - the repository's own tests and doc tests:                   *)
(*   - an identity met for the first time gets the next free id and is      *)
(*     reported as new exactly then (ids are dense, first-come);            *)
(*   - an identity met again gets its first id, is not new, and NOTHING is  *)
(*     registered while that call is open (a hit evaluates no definition);  *)
(*   - calls are properly nested (the depth-first walk of the definition);  *)
(*   - the converted registry lists exactly the ids handed out, in order,   *)
(*     and no call is open then.                                            *)
(***************************************************************************)
EXTENDS Naturals, Sequences, FiniteSets
VARIABLES table, stack
hvars == <<table, stack>>
Known(t) == \E i \in 1..Len(table) : table[i] = t
Idx(t) == CHOOSE i \in 1..Len(table) : table[i] = t
HInit == table = <<>> /\ stack = <<>>
Top == stack[Len(stack)]
Enter(t) ==
  /\ IF stack = <<>> THEN TRUE ELSE ~Top.hit
  /\ IF Known(t) THEN /\ stack' = Append(stack, [tid |-> t, hit |-> TRUE, id |-> Idx(t) - 1])
                      /\ UNCHANGED table
     ELSE /\ table' = Append(table, t)
          /\ stack' = Append(stack, [tid |-> t, hit |-> FALSE, id |-> Len(table)])
Exit(t, id, ins) ==
  /\ stack # <<>> /\ Top.tid = t /\ Top.id = id /\ ins = ~Top.hit
  /\ stack' = SubSeq(stack, 1, Len(stack) - 1) /\ UNCHANGED table
Finish(ids) == stack = <<>> /\ ids = [i \in 1..Len(table) |-> i - 1] /\ UNCHANGED hvars
\* what the discipline guarantees (checked on the bounded model MC_RegHooks)
NoDuplicate == \A i, j \in 1..Len(table) : table[i] = table[j] => i = j
OpenAreKnown == \A k \in 1..Len(stack) : Known(stack[k].tid) /\ table[stack[k].id + 1] = stack[k].tid
OnlyTopMayBeHit == \A k \in 1..Len(stack) : stack[k].hit => k = Len(stack)
NoSelfNesting == \A j, k \in 1..Len(stack) : (j # k /\ stack[j].tid = stack[k].tid) => (stack[j].hit \/ stack[k].hit)
=============================================================================
