-------------------------------- MODULE Wire --------------------------------
(***************************************************************************)
(* The published V14 SCALE layout of a PortableRegistry, written from the  *)
(* format description (not from the implementation):                       *)
(*   registry = Vec<(Compact<u32> id, type)>                               *)
(*   type     = path: Vec<str>, params: Vec<(str name, Option<Compact id>)>,*)
(*              def: tag byte 0..7 + payload, docs: Vec<str>               *)
(*   def      = 0 composite Vec<field> | 1 variant Vec<variant> |          *)
(*              2 sequence id | 3 array (u32 LE len, id) | 4 tuple Vec<id> |*)
(*              5 primitive (tag 0..14) | 6 compact id | 7 bitseq (store,order)*)
(*   field    = Option<str> name, Compact id, Option<str> typeName, Vec<str> docs*)
(*   variant  = str name, Vec<field>, u8 index, Vec<str> docs              *)
(* "Wide" data model: a u32 is a sequence of 4 little-endian bytes, a       *)
(* string is its sequence of UTF-8 bytes (TLC integers are 32-bit signed). *)
(*                                                                         *)
(* EncReg is the independent encoder; DecReg the independent decoder       *)
(* (canonical compact integers, option tags 0/1, enum tags in range, valid *)
(* UTF-8, all lengths satisfiable).  MC_Wire checks DecReg(EncReg(r)) = r  *)
(* consuming exactly Len, and canonicity DecReg(b) ok => EncReg = prefix.  *)
(***************************************************************************)
EXTENDS Naturals, Sequences, FiniteSets, SequencesExt, TLC

Prims == <<"bool", "char", "str", "u8", "u16", "u32", "u64", "u128", "u256", "i8", "i16", "i32", "i64", "i128", "i256">>
PrimIdx(p) == (CHOOSE i \in 1..Len(Prims) : Prims[i] = p) - 1

(* ---------- compact<u32> on 4 LE bytes ---------- *)
ShiftL2(q) ==      \* times 4, bytewise; caller guarantees the result fits 32 bits
  LET c0 == q[1] * 4 c1 == q[2] * 4 + c0 \div 256 c2 == q[3] * 4 + c1 \div 256 c3 == q[4] * 4 + c2 \div 256
  IN <<c0 % 256, c1 % 256, c2 % 256, c3 % 256>>
CompactQ(q) ==
  IF q[4] = 0 /\ q[3] = 0 /\ q[2] = 0 /\ q[1] < 64 THEN <<q[1] * 4>>
  ELSE IF q[4] = 0 /\ q[3] = 0 /\ q[2] < 64 THEN LET s == ShiftL2(q) IN <<s[1] + 1, s[2]>>
  ELSE IF q[4] < 64 THEN LET s == ShiftL2(q) IN <<s[1] + 2, s[2], s[3], s[4]>>
  ELSE <<3>> \o q
NatQ(n) == <<n % 256, (n \div 256) % 256, (n \div 65536) % 256, (n \div 16777216) % 256>>
QNat(q) == q[1] + 256 * q[2] + 65536 * q[3] + 16777216 * q[4]       \* only when q[4] < 128
CompactN(n) == CompactQ(NatQ(n))

(* ---------- encoder ---------- *)
Vec(xs, F(_)) == CompactN(Len(xs)) \o FlattenSeq([i \in 1..Len(xs) |-> F(xs[i])])
Str(bs) == CompactN(Len(bs)) \o bs
Opt(o, F(_)) == IF o = <<>> THEN <<0>> ELSE <<1>> \o F(o[1])
EncField(f) == Opt(f.name, Str) \o CompactQ(f.ty) \o Opt(f.tn, Str) \o Vec(f.docs, Str)
EncVariant(v) == Str(v.name) \o Vec(v.fields, EncField) \o <<v.index>> \o Vec(v.docs, Str)
EncDef(d) == CASE d.tag = "composite" -> <<0>> \o Vec(d.fields, EncField)
               [] d.tag = "variant" -> <<1>> \o Vec(d.variants, EncVariant)
               [] d.tag = "sequence" -> <<2>> \o CompactQ(d.ty)
               [] d.tag = "array" -> <<3>> \o d.len \o CompactQ(d.ty)
               [] d.tag = "tuple" -> <<4>> \o Vec(d.tys, CompactQ)
               [] d.tag = "primitive" -> <<5, PrimIdx(d.prim)>>
               [] d.tag = "compact" -> <<6>> \o CompactQ(d.ty)
               [] d.tag = "bitsequence" -> <<7>> \o CompactQ(d.store) \o CompactQ(d.order)
EncParam(p) == Str(p.name) \o Opt(p.ty, CompactQ)
EncType(t) == Vec(t.path, Str) \o Vec(t.params, EncParam) \o EncDef(t.def) \o Vec(t.docs, Str)
EncEntry(e) == CompactQ(e.id) \o EncType(e)
EncReg(r) == Vec(r, EncEntry)

(* ---------- decoder: parsers return [ok |-> TRUE, v |-> value, p |-> next position] or Fail ---------- *)
Fail == [ok |-> FALSE]
Ok(v, p) == [ok |-> TRUE, v |-> v, p |-> p]
Has(b, p, n) == p + n - 1 <= Len(b)

ShiftR2(x) ==     \* 4 LE bytes divided by 4
  <<(x[1] \div 4) + (x[2] % 4) * 64, (x[2] \div 4) + (x[3] % 4) * 64, (x[3] \div 4) + (x[4] % 4) * 64, x[4] \div 4>>
DecCompact(b, p) ==
  IF ~Has(b, p, 1) THEN Fail ELSE
  LET m == b[p] % 4 IN
  CASE m = 0 -> Ok(<<b[p] \div 4, 0, 0, 0>>, p + 1)
    [] m = 1 -> IF ~Has(b, p, 2) THEN Fail ELSE
                LET q == ShiftR2(<<b[p], b[p+1], 0, 0>>) IN
                IF q[2] = 0 /\ q[1] < 64 THEN Fail ELSE Ok(q, p + 2)                 \* must not fit mode 0
    [] m = 2 -> IF ~Has(b, p, 4) THEN Fail ELSE
                LET q == ShiftR2(<<b[p], b[p+1], b[p+2], b[p+3]>>) IN
                IF q[4] = 0 /\ q[3] = 0 /\ q[2] < 64 THEN Fail ELSE Ok(q, p + 4)     \* must not fit mode 1
    [] m = 3 -> IF b[p] # 3 \/ ~Has(b, p, 5) THEN Fail ELSE                          \* u32: exactly 4 bytes follow
                LET q == <<b[p+1], b[p+2], b[p+3], b[p+4]>> IN
                IF q[4] < 64 THEN Fail ELSE Ok(q, p + 5)                             \* must not fit mode 2
\* a length: compact u32 that must also be satisfiable by the remaining input (>= 1 byte per element
\* is NOT assumed: elements may be... every element of every vector here takes >= 1 byte)
DecLen(b, p) ==
  LET r == DecCompact(b, p) IN
  IF ~r.ok THEN Fail
  ELSE IF r.v[4] # 0 \/ r.v[3] # 0 \/ QNat(r.v) > Len(b) THEN Fail      \* more elements than bytes left
  ELSE Ok(QNat(r.v), r.p)

(* UTF-8 well-formedness, Unicode table 3-7 *)
RECURSIVE Utf8From(_, _)
Utf8From(s, i) ==
  IF i > Len(s) THEN TRUE ELSE
  LET c == s[i]
      Cont(k, lo, hi) == i + k <= Len(s) /\ s[i+1] >= lo /\ s[i+1] <= hi
                         /\ \A j \in 2..k : s[i+j] >= 128 /\ s[i+j] <= 191
  IN CASE c <= 127 -> Utf8From(s, i + 1)
       [] c >= 194 /\ c <= 223 -> Cont(1, 128, 191) /\ Utf8From(s, i + 2)
       [] c = 224 -> Cont(2, 160, 191) /\ Utf8From(s, i + 3)
       [] (c >= 225 /\ c <= 236) \/ c = 238 \/ c = 239 -> Cont(2, 128, 191) /\ Utf8From(s, i + 3)
       [] c = 237 -> Cont(2, 128, 159) /\ Utf8From(s, i + 3)
       [] c = 240 -> Cont(3, 144, 191) /\ Utf8From(s, i + 4)
       [] c >= 241 /\ c <= 243 -> Cont(3, 128, 191) /\ Utf8From(s, i + 4)
       [] c = 244 -> Cont(3, 128, 143) /\ Utf8From(s, i + 4)
       [] OTHER -> FALSE
Utf8OK(s) == Utf8From(s, 1)

DecStr(b, p) ==
  LET n == DecLen(b, p) IN
  IF ~n.ok THEN Fail
  ELSE IF ~Has(b, n.p, n.v) THEN Fail
  ELSE LET s == SubSeq(b, n.p, n.p + n.v - 1) IN IF Utf8OK(s) THEN Ok(s, n.p + n.v) ELSE Fail

\* (long vectors are decoded in blocks of 64, see DecEntries)
RECURSIVE DecStrsB(_, _, _, _)
DecStrsB(b, p, n, acc) == IF n = 0 THEN Ok(acc, p) ELSE
  LET r == DecStr(b, p) IN IF ~r.ok THEN Fail ELSE DecStrsB(b, r.p, n - 1, Append(acc, r.v))
RECURSIVE DecStrsC(_, _, _, _)
DecStrsC(b, p, n, accs) ==
  IF n = 0 THEN Ok(FlattenSeq(accs), p) ELSE
  LET k == IF n < 64 THEN n ELSE 64  blk == DecStrsB(b, p, k, <<>>) IN
  IF ~blk.ok THEN Fail ELSE DecStrsC(b, blk.p, n - k, Append(accs, blk.v))
DecStrs(b, p, n, acc) == DecStrsC(b, p, n, <<>>)
DecVecStr(b, p) == LET n == DecLen(b, p) IN IF ~n.ok THEN Fail ELSE DecStrs(b, n.p, n.v, <<>>)

DecOptStr(b, p) ==
  IF ~Has(b, p, 1) THEN Fail
  ELSE IF b[p] = 0 THEN Ok(<<>>, p + 1)
  ELSE IF b[p] = 1 THEN LET r == DecStr(b, p + 1) IN IF r.ok THEN Ok(<<r.v>>, r.p) ELSE Fail
  ELSE Fail
DecOptId(b, p) ==
  IF ~Has(b, p, 1) THEN Fail
  ELSE IF b[p] = 0 THEN Ok(<<>>, p + 1)
  ELSE IF b[p] = 1 THEN LET r == DecCompact(b, p + 1) IN IF r.ok THEN Ok(<<r.v>>, r.p) ELSE Fail
  ELSE Fail

DecField(b, p) ==
  LET a == DecOptStr(b, p) IN IF ~a.ok THEN Fail ELSE
  LET t == DecCompact(b, a.p) IN IF ~t.ok THEN Fail ELSE
  LET n == DecOptStr(b, t.p) IN IF ~n.ok THEN Fail ELSE
  LET d == DecVecStr(b, n.p) IN IF ~d.ok THEN Fail ELSE
  Ok([name |-> a.v, ty |-> t.v, tn |-> n.v, docs |-> d.v], d.p)
RECURSIVE DecFields(_, _, _, _)
DecFields(b, p, n, acc) == IF n = 0 THEN Ok(acc, p) ELSE
  LET r == DecField(b, p) IN IF ~r.ok THEN Fail ELSE DecFields(b, r.p, n - 1, Append(acc, r.v))
DecVecField(b, p) == LET n == DecLen(b, p) IN IF ~n.ok THEN Fail ELSE DecFields(b, n.p, n.v, <<>>)

DecVariant(b, p) ==
  LET a == DecStr(b, p) IN IF ~a.ok THEN Fail ELSE
  LET f == DecVecField(b, a.p) IN IF ~f.ok THEN Fail ELSE
  IF ~Has(b, f.p, 1) THEN Fail ELSE
  LET d == DecVecStr(b, f.p + 1) IN IF ~d.ok THEN Fail ELSE
  Ok([name |-> a.v, fields |-> f.v, index |-> b[f.p], docs |-> d.v], d.p)
RECURSIVE DecVariants(_, _, _, _)
DecVariants(b, p, n, acc) == IF n = 0 THEN Ok(acc, p) ELSE
  LET r == DecVariant(b, p) IN IF ~r.ok THEN Fail ELSE DecVariants(b, r.p, n - 1, Append(acc, r.v))

RECURSIVE DecIdsB(_, _, _, _)
DecIdsB(b, p, n, acc) == IF n = 0 THEN Ok(acc, p) ELSE
  LET r == DecCompact(b, p) IN IF ~r.ok THEN Fail ELSE DecIdsB(b, r.p, n - 1, Append(acc, r.v))
RECURSIVE DecIdsC(_, _, _, _)
DecIdsC(b, p, n, accs) ==
  IF n = 0 THEN Ok(FlattenSeq(accs), p) ELSE
  LET k == IF n < 64 THEN n ELSE 64  blk == DecIdsB(b, p, k, <<>>) IN
  IF ~blk.ok THEN Fail ELSE DecIdsC(b, blk.p, n - k, Append(accs, blk.v))
DecIds(b, p, n, acc) == DecIdsC(b, p, n, <<>>)

DecParam(b, p) ==
  LET a == DecStr(b, p) IN IF ~a.ok THEN Fail ELSE
  LET t == DecOptId(b, a.p) IN IF ~t.ok THEN Fail ELSE Ok([name |-> a.v, ty |-> t.v], t.p)
RECURSIVE DecParams(_, _, _, _)
DecParams(b, p, n, acc) == IF n = 0 THEN Ok(acc, p) ELSE
  LET r == DecParam(b, p) IN IF ~r.ok THEN Fail ELSE DecParams(b, r.p, n - 1, Append(acc, r.v))

DecDef(b, p) ==
  IF ~Has(b, p, 1) THEN Fail ELSE
  LET tag == b[p] IN
  CASE tag = 0 -> LET r == DecVecField(b, p + 1) IN IF r.ok THEN Ok([tag |-> "composite", fields |-> r.v], r.p) ELSE Fail
    [] tag = 1 -> LET n == DecLen(b, p + 1) IN IF ~n.ok THEN Fail ELSE
                  LET r == DecVariants(b, n.p, n.v, <<>>) IN IF r.ok THEN Ok([tag |-> "variant", variants |-> r.v], r.p) ELSE Fail
    [] tag = 2 -> LET r == DecCompact(b, p + 1) IN IF r.ok THEN Ok([tag |-> "sequence", ty |-> r.v], r.p) ELSE Fail
    [] tag = 3 -> IF ~Has(b, p + 1, 4) THEN Fail ELSE
                  LET r == DecCompact(b, p + 5) IN
                  IF r.ok THEN Ok([tag |-> "array", len |-> SubSeq(b, p + 1, p + 4), ty |-> r.v], r.p) ELSE Fail
    [] tag = 4 -> LET n == DecLen(b, p + 1) IN IF ~n.ok THEN Fail ELSE
                  LET r == DecIds(b, n.p, n.v, <<>>) IN IF r.ok THEN Ok([tag |-> "tuple", tys |-> r.v], r.p) ELSE Fail
    [] tag = 5 -> IF ~Has(b, p + 1, 1) \/ b[p+1] > 14 THEN Fail ELSE Ok([tag |-> "primitive", prim |-> Prims[b[p+1] + 1]], p + 2)
    [] tag = 6 -> LET r == DecCompact(b, p + 1) IN IF r.ok THEN Ok([tag |-> "compact", ty |-> r.v], r.p) ELSE Fail
    [] tag = 7 -> LET s == DecCompact(b, p + 1) IN IF ~s.ok THEN Fail ELSE
                  LET o == DecCompact(b, s.p) IN IF o.ok THEN Ok([tag |-> "bitsequence", store |-> s.v, order |-> o.v], o.p) ELSE Fail
    [] OTHER -> Fail

DecEntry(b, p) ==
  LET i == DecCompact(b, p) IN IF ~i.ok THEN Fail ELSE
  LET pa == DecVecStr(b, i.p) IN IF ~pa.ok THEN Fail ELSE
  LET n == DecLen(b, pa.p) IN IF ~n.ok THEN Fail ELSE
  LET ps == DecParams(b, n.p, n.v, <<>>) IN IF ~ps.ok THEN Fail ELSE
  LET d == DecDef(b, ps.p) IN IF ~d.ok THEN Fail ELSE
  LET dc == DecVecStr(b, d.p) IN IF ~dc.ok THEN Fail ELSE
  Ok([id |-> i.v, path |-> pa.v, params |-> ps.v, def |-> d.v, docs |-> dc.v], dc.p)
\* Entries are decoded in blocks of 64 (two-level recursion): TLC's cost per step grows with the depth of the
\* recursion it is in, so one recursion of depth 16 384 took hours where depth 256 + 64 takes minutes.
RECURSIVE DecBlock(_, _, _, _)
DecBlock(b, p, k, acc) == IF k = 0 THEN Ok(acc, p) ELSE
  LET r == DecEntry(b, p) IN IF ~r.ok THEN Fail ELSE DecBlock(b, r.p, k - 1, Append(acc, r.v))
RECURSIVE DecEntriesC(_, _, _, _)
DecEntriesC(b, p, n, accs) ==
  IF n = 0 THEN Ok(FlattenSeq(accs), p) ELSE
  LET k == IF n < 64 THEN n ELSE 64
      blk == DecBlock(b, p, k, <<>>) IN
  IF ~blk.ok THEN Fail ELSE DecEntriesC(b, blk.p, n - k, Append(accs, blk.v))
DecEntries(b, p, n, acc) == DecEntriesC(b, p, n, <<>>)

\* result: [ok |-> TRUE, v |-> registry, p |-> 1 + number of bytes consumed] or [ok |-> FALSE]
DecReg(b) == LET n == DecLen(b, 1) IN IF ~n.ok THEN Fail ELSE DecEntries(b, n.p, n.v, <<>>)
Consumed(r) == r.p - 1

(* the two lemmas about the FORMAT (model-checked in MC_Wire) *)
RoundTrip(r) == LET b == EncReg(r) d == DecReg(b) IN d.ok /\ d.v = r /\ Consumed(d) = Len(b)
Canonical(b) == LET d == DecReg(b) IN d.ok => EncReg(d.v) = SubSeq(b, 1, Consumed(d))
=============================================================================
