---------------------------- MODULE TypeBuilders ----------------------------
(***************************************************************************)
(* src/build.rs: the typestate builders as a protocol automaton.           *)
(*                                                                         *)
(* A builder state is [b |-> builder kind, f |-> form ("M" compile-time /  *)
(* "P" portable), ts |-> typestate, acc |-> accumulated parts].  A call is *)
(* [m |-> method, ...arguments].  Enabled(s, c) says the method EXISTS for *)
(* that typestate (what rustc enforces: C20); Apply(s, c) is the builder   *)
(* after the call; finalisers produce `res`, the value built (C17: exactly *)
(* the parts supplied, in the order supplied; setters that replace,        *)
(* replace; PhantomData members are dropped by the compile-time-form       *)
(* builders; feature-gated docs setters keep docs only with the feature).  *)
(*                                                                         *)
(* Builders: FB FieldBuilder, FS FieldsBuilder, VB VariantBuilder,         *)
(* VS Variants, TB TypeBuilder.  Nested closures are flattened: the        *)
(* argument of FS.field is a whole FB call sequence, of VS.variant a VB    *)
(* call sequence, of VB.fields / TB.composite an FS call sequence, of      *)
(* TB.variant a VS call sequence (evaluated recursively by Run).           *)
(***************************************************************************)
EXTENDS Naturals, Sequences, FiniteSets, SequencesExt, TLC
CONSTANT DocsFeature

None == <<>>
Some(x) == <<x>>
\* compile-time-form type spellings used as arguments; the phantom ones are aliases of PhantomData
PhantomSpellings == {"PhantomData<u8>", "Box<PhantomData<()>>", "std::sync::Arc<PhantomData<u8>>"}
CanonTy(t) == IF t \in PhantomSpellings THEN "phantom" ELSE t

Start(b, f, arg) ==
  CASE b = "FB" -> [b |-> b, f |-> f, ts |-> [name |-> FALSE, ty |-> FALSE], acc |-> [name |-> None, ty |-> None, tn |-> None, docs |-> <<>>]]
    [] b = "FS" -> [b |-> b, f |-> f, ts |-> [k |-> arg], acc |-> <<>>]                      \* arg: "named" | "unnamed" | "unit"
    [] b = "VB" -> [b |-> b, f |-> f, ts |-> [index |-> FALSE], acc |-> [name |-> arg, index |-> None, fields |-> <<>>, docs |-> <<>>]]
    [] b = "VS" -> [b |-> b, f |-> f, ts |-> [x |-> 0], acc |-> <<>>]
    [] b = "TB" -> [b |-> b, f |-> f, ts |-> [path |-> FALSE], acc |-> [path |-> None, params |-> <<>>, docs |-> <<>>]]

Finalisers == {"finalize", "composite", "variant"}
IsFinal(c) == c.m \in Finalisers /\ ~(c.m = "variant" /\ "name" \in DOMAIN c)

RECURSIVE Run(_, _), Enabled(_, _), Apply(_, _), Result(_, _)
\* Run a call sequence on a state: [ok, s] after the non-final calls, plus res if the last call is a finaliser
Run(s, cs) ==
  IF cs = <<>> THEN [ok |-> TRUE, s |-> s, done |-> FALSE]
  ELSE LET c == Head(cs) IN
       IF ~Enabled(s, c) THEN [ok |-> FALSE]
       ELSE IF IsFinal(c) THEN (IF Len(cs) = 1 THEN [ok |-> TRUE, s |-> s, done |-> TRUE, res |-> Result(s, c)] ELSE [ok |-> FALSE])
       ELSE Run(Apply(s, c), Tail(cs))
\* a closure argument: run the nested sequence from the nested builder's start state, without finaliser
Nested(b, f, arg, cs) == Run(Start(b, f, arg), cs)

DocsSetterOK(f, m) ==          \* which docs setters exist for which form (and feature)
  CASE m = "docs" -> f = "M"
    [] m = "docs_always" -> f = "M"
    [] m = "docs_portable" -> f = "P" /\ DocsFeature
    [] OTHER -> FALSE
KeepsDocs(m) == m \in {"docs_always", "docs_portable"} \/ (m = "docs" /\ DocsFeature)

Enabled(s, c) ==
  CASE s.b = "FB" ->
         (CASE c.m = "name" -> ~s.ts.name
           [] c.m = "ty" -> ~s.ts.ty
           [] c.m = "compact" -> ~s.ts.ty /\ s.f = "M"
           [] c.m = "type_name" -> TRUE
           [] c.m \in {"docs", "docs_always", "docs_portable"} -> DocsSetterOK(s.f, c.m)
           [] c.m = "finalize" -> s.ts.ty
           [] OTHER -> FALSE)
    [] s.b = "FS" ->
         (CASE c.m = "field" ->         \* the closure must return the typestate the field set demands
                LET r == Nested("FB", s.f, <<>>, c.seq) IN
                /\ s.ts.k \in {"named", "unnamed"} /\ r.ok /\ ~r.done
                /\ r.s.ts.ty /\ (r.s.ts.name <=> s.ts.k = "named")
           [] c.m = "finalize" -> TRUE
           [] OTHER -> FALSE)
    [] s.b = "VB" ->
         (CASE c.m = "index" -> ~s.ts.index
           [] c.m = "discriminant" -> TRUE
           [] c.m = "fields" -> LET r == Nested("FS", s.f, c.k, c.seq) IN r.ok /\ ~r.done
           [] c.m \in {"docs", "docs_always", "docs_portable"} -> DocsSetterOK(s.f, c.m)
           [] c.m = "finalize" -> s.ts.index
           [] OTHER -> FALSE)
    [] s.b = "VS" ->
         (CASE c.m = "variant" /\ "name" \in DOMAIN c ->
                LET r == Nested("VB", s.f, c.name, c.seq) IN r.ok /\ ~r.done /\ r.s.ts.index
           [] c.m = "variant_unit" -> TRUE
           [] c.m = "finalize" -> TRUE
           [] OTHER -> FALSE)
    [] s.b = "TB" ->
         (CASE c.m = "path" -> ~s.ts.path
           [] c.m = "type_params" -> TRUE
           [] c.m \in {"type_params_macro", "named_type_params_macro"} -> s.f = "M"      \* the exported macros build MetaForm parameters
           [] c.m \in {"docs", "docs_always", "docs_portable"} -> DocsSetterOK(s.f, c.m)
           [] c.m = "composite" -> s.ts.path /\ LET r == Nested("FS", s.f, c.k, c.seq) IN r.ok /\ ~r.done
           [] c.m = "variant" -> s.ts.path /\ LET r == Nested("VS", s.f, <<>>, c.seq) IN r.ok /\ ~r.done
           [] OTHER -> FALSE)

SetDocs(s, c) == IF KeepsDocs(c.m) THEN [s EXCEPT !.acc.docs = c.d] ELSE s
FieldOf(acc) == [name |-> acc.name, ty |-> acc.ty[1], tn |-> acc.tn, docs |-> acc.docs]
FieldsOf(f, k, seq) == Nested("FS", f, k, seq).s.acc
Apply(s, c) ==
  CASE s.b = "FB" ->
         (CASE c.m = "name" -> [s EXCEPT !.ts.name = TRUE, !.acc.name = Some(c.n)]
           [] c.m = "ty" -> [s EXCEPT !.ts.ty = TRUE, !.acc.ty = Some(IF s.f = "M" THEN CanonTy(c.t) ELSE c.t)]
           [] c.m = "compact" -> [s EXCEPT !.ts.ty = TRUE, !.acc.ty = Some("Compact<" \o c.t \o ">")]
           [] c.m = "type_name" -> [s EXCEPT !.acc.tn = Some(c.tn)]
           [] OTHER -> SetDocs(s, c))
    [] s.b = "FS" ->
         LET fld == FieldOf(Nested("FB", s.f, <<>>, c.seq).s.acc) IN
         IF s.f = "M" /\ fld.ty = "phantom" THEN s ELSE [s EXCEPT !.acc = Append(@, fld)]      \* push_field
    [] s.b = "VB" ->
         (CASE c.m = "index" -> [s EXCEPT !.ts.index = TRUE, !.acc.index = Some(c.i)]
           [] c.m = "discriminant" -> s                                                        \* recorded nowhere in the result
           [] c.m = "fields" -> [s EXCEPT !.acc.fields = FieldsOf(s.f, c.k, c.seq)]
           [] OTHER -> SetDocs(s, c))
    [] s.b = "VS" ->
         (CASE c.m = "variant" -> LET a == Nested("VB", s.f, c.name, c.seq).s.acc IN
                                 [s EXCEPT !.acc = Append(@, [name |-> a.name, fields |-> a.fields, index |-> a.index[1], docs |-> a.docs])]
           [] c.m = "variant_unit" -> [s EXCEPT !.acc = Append(@, [name |-> c.name, fields |-> <<>>, index |-> c.i, docs |-> <<>>])])
    [] s.b = "TB" ->
         (CASE c.m = "path" -> [s EXCEPT !.ts.path = TRUE, !.acc.path = Some(c.p)]
           \* type_params![A, B]: each parameter is named by the text of its type and carries that type;
           \* named_type_params![(N, A), ..]: named N, carrying A
           [] c.m = "type_params_macro" -> [s EXCEPT !.acc.params = [i \in 1..Len(c.tys) |-> [name |-> c.tys[i], ty |-> <<CanonTy(c.tys[i])>>]]]
           [] c.m = "named_type_params_macro" -> [s EXCEPT !.acc.params = [i \in 1..Len(c.ps) |-> [name |-> c.ps[i][1], ty |-> <<CanonTy(c.ps[i][2])>>]]]
           [] c.m = "type_params" -> [s EXCEPT !.acc.params = [i \in 1..Len(c.ps) |-> [name |-> c.ps[i].name, ty |-> IF c.ps[i].ty = <<>> THEN <<>> ELSE <<(IF s.f = "M" THEN CanonTy(c.ps[i].ty[1]) ELSE c.ps[i].ty[1])>>]]]
           [] OTHER -> SetDocs(s, c))

Result(s, c) ==
  CASE s.b = "FB" -> FieldOf(s.acc)
    [] s.b = "FS" -> s.acc
    [] s.b = "VB" -> [name |-> s.acc.name, fields |-> s.acc.fields, index |-> s.acc.index[1], docs |-> s.acc.docs]
    [] s.b = "VS" -> s.acc
    [] s.b = "TB" -> [path |-> s.acc.path[1], params |-> s.acc.params, docs |-> s.acc.docs,
                      def |-> IF c.m = "composite" THEN [tag |-> "composite", fields |-> FieldsOf(s.f, c.k, c.seq)]
                              ELSE [tag |-> "variant", variants |-> Nested("VS", s.f, <<>>, c.seq).s.acc]]
=============================================================================
