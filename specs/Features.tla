------------------------------ MODULE Features ------------------------------
(***************************************************************************)
(* The feature lattice of scale-info and the claim of C15.                 *)
(* Features: std, serde, decode, bit-vec, schema, docs (derive is always    *)
(* on: the corpus uses it).  `schema` switches `std` on.  A configuration   *)
(* is the set of features SELECTED; Effective(cfg) is what is enabled.      *)
(*                                                                         *)
(* Claim: the encoded registry of a fixed corpus is a function of           *)
(* (corpus, docs \in cfg) only, and the docs feature changes documentation  *)
(* strings only: clearing every docs vector gives the same bytes in every   *)
(* configuration.  BitVec types belong to the corpus only where bit-vec is  *)
(* enabled (separate fingerprint).                                          *)
(*                                                                         *)
(* The acceptor takes one Fingerprint event per real build and requires the *)
(* events to agree as the claim says; whether the common bytes are the      *)
(* RIGHT bytes is C06's question.                                           *)
(***************************************************************************)
EXTENDS Naturals, Sequences, FiniteSets, SequencesExt, TLC, Json, IOUtils
Feats == {"std", "serde", "decode", "bit-vec", "schema", "docs"}
Effective(cfg) == cfg \cup (IF "schema" \in cfg THEN {"std"} ELSE {})
Configs == SUBSET Feats
\* items that exist only under some features (documentation of the lattice; used by the generator)
HasDecode(cfg) == "std" \in Effective(cfg) \/ "decode" \in cfg
PortableStringOwned(cfg) == HasDecode(cfg)
HasSerialize(cfg) == "serde" \in cfg
HasDeserialize(cfg) == "serde" \in cfg /\ "decode" \in cfg

Rec == ndJsonDeserialize(IOEnv.TRACE)
CfgOf(e) == {e.cfg[i] : i \in 1..Len(e.cfg)}
\* within ONE build: the corpus registered a second time in a fresh registry gives the same bytes as the first time
SelfOK(a) == a.secondfull = a.full /\ a.secondnodocs = a.nodocs
Agree(a, b) ==
  /\ SelfOK(a) /\ SelfOK(b)
  /\ a.revnodocs = b.revnodocs                                                   \* the corpus in the opposite order, third registry of the process
  /\ (("docs" \in CfgOf(a)) = ("docs" \in CfgOf(b))) => a.revfull = b.revfull
  /\ a.nodocs = b.nodocs                                                         \* docs change docs only
  /\ (("docs" \in CfgOf(a)) = ("docs" \in CfgOf(b))) => a.full = b.full          \* nothing else changes anything
  /\ ("bit-vec" \in CfgOf(a) /\ "bit-vec" \in CfgOf(b)) =>
        /\ a.bvnodocs = b.bvnodocs
        /\ (("docs" \in CfgOf(a)) = ("docs" \in CfgOf(b))) => a.bvfull = b.bvfull
VARIABLE l
Init == l = 1
\* event l must agree with every earlier event
Next == l <= Len(Rec) /\ SelfOK(Rec[l]) /\ (\A k \in 1..(l-1) : Agree(Rec[k], Rec[l])) /\ l' = l + 1
Spec == Init /\ [][Next]_l
Stutter == UNCHANGED l
Track == TLCSet(1, l)
Accepted == IF TLCGet(1) = Len(Rec) + 1 THEN TRUE
            ELSE Print(<<"REJECTED at event", TLCGet(1), Rec[TLCGet(1)].cfg>>, FALSE)
\* generator: the configurations to build
EmitConfigs == PrintT(<<"CONFIGS", ToJson([c \in 1..Cardinality(Configs) |-> SetToSeq(SetToSeq(Configs)[c])])>>)
=============================================================================
