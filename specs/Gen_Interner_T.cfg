CONSTANTS V = {"a","b","c","d","e"} MaxProbe = 6
SPECIFICATION Spec
ACTION_CONSTRAINT Trans
VIEW View
CHECK_DEADLOCK FALSE
