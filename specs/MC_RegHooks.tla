----------------------------- MODULE MC_RegHooks -----------------------------
(* Bounded design check of RegHooks: every interleaving of enter / exit over three identities, nesting <= 4. *)
EXTENDS RegHooks
Ids == {"a", "b", "c"}
Next == \/ \E t \in Ids : Len(stack) < 4 /\ Enter(t)
        \/ (IF stack = <<>> THEN FALSE ELSE Exit(Top.tid, Top.id, ~Top.hit))
        \/ Finish([i \in 1..Len(table) |-> i - 1])
Spec == HInit /\ [][Next]_hvars
=============================================================================
