SPECIFICATION TSpec
INVARIANT Bijective ListAnswers
CONSTRAINT Track
POSTCONDITION Accepted
CHECK_DEADLOCK FALSE
