--------------------------- MODULE RegHooksProof ---------------------------
(***************************************************************************)
(* Unbounded safety of the interning discipline (specs/RegHooks.tla) with  *)
(* the TLA+ proof system: for ANY set of identities, any nesting depth and *)
(* any number of calls the table of first occurrences is duplicate-free,    *)
(* and every open call's id is the position of its identity in the table   *)
(* (so the id an `exit` reports always denotes the identity that was        *)
(* entered).  TLC checks the same invariants for 3 identities and nesting   *)
(* <= 4 (MC_RegHooks); X04 validates recorded executions against the        *)
(* discipline.  The module restates the actions of RegHooks.tla.            *)
(***************************************************************************)
EXTENDS Naturals, Sequences, TLAPS
CONSTANT Ids
VARIABLES table, stack
vars == <<table, stack>>
Entry == [tid : Ids, hit : BOOLEAN, id : Nat]
Known(t) == \E i \in 1..Len(table) : table[i] = t
Idx(t) == CHOOSE i \in 1..Len(table) : table[i] = t
Init == table = <<>> /\ stack = <<>>
EnterHit(t) == /\ Known(t)
               /\ stack' = Append(stack, [tid |-> t, hit |-> TRUE, id |-> Idx(t) - 1])
               /\ UNCHANGED table
EnterNew(t) == /\ ~Known(t)
               /\ table' = Append(table, t)
               /\ stack' = Append(stack, [tid |-> t, hit |-> FALSE, id |-> Len(table)])
Exit == /\ stack # <<>>
        /\ stack' = SubSeq(stack, 1, Len(stack) - 1) /\ UNCHANGED table
Next == (\E t \in Ids : EnterHit(t) \/ EnterNew(t)) \/ Exit
Spec == Init /\ [][Next]_vars

Inv == /\ table \in Seq(Ids)
       /\ stack \in Seq(Entry)
       /\ \A i, j \in 1..Len(table) : table[i] = table[j] => i = j
       /\ \A k \in 1..Len(stack) : stack[k].id < Len(table) /\ table[stack[k].id + 1] = stack[k].tid

LEMMA InvInit == Init => Inv
  BY DEF Init, Inv

LEMMA InvStep == Inv /\ [Next]_vars => Inv'
<1> SUFFICES ASSUME Inv, [Next]_vars PROVE Inv'
  OBVIOUS
<1>1. CASE UNCHANGED vars
  BY <1>1 DEF Inv, vars
<1>2. ASSUME NEW t \in Ids, EnterHit(t) PROVE Inv'
  <2>1. Idx(t) \in 1..Len(table) /\ table[Idx(t)] = t
    BY <1>2 DEF EnterHit, Known, Idx
  <2>2. [tid |-> t, hit |-> TRUE, id |-> Idx(t) - 1] \in Entry
    BY <2>1 DEF Entry
  <2>3. stack' = Append(stack, [tid |-> t, hit |-> TRUE, id |-> Idx(t) - 1]) /\ table' = table
    BY <1>2 DEF EnterHit
  <2>4. stack' \in Seq(Entry) /\ Len(stack') = Len(stack) + 1 /\ \A k \in 1..Len(stack) : stack'[k] = stack[k]
    BY <2>2, <2>3 DEF Inv
  <2>5. stack'[Len(stack) + 1] = [tid |-> t, hit |-> TRUE, id |-> Idx(t) - 1]
    BY <2>3 DEF Inv
  <2>6. \A k \in 1..Len(stack') : stack'[k].id < Len(table') /\ table'[stack'[k].id + 1] = stack'[k].tid
    BY <2>1, <2>3, <2>4, <2>5 DEF Inv
  <2> QED BY <2>3, <2>4, <2>6 DEF Inv
<1>3. ASSUME NEW t \in Ids, EnterNew(t) PROVE Inv'
  <2>1. table' = Append(table, t) /\ stack' = Append(stack, [tid |-> t, hit |-> FALSE, id |-> Len(table)])
    BY <1>3 DEF EnterNew
  <2>2. table' \in Seq(Ids) /\ Len(table') = Len(table) + 1 /\ \A i \in 1..Len(table) : table'[i] = table[i]
    BY <2>1 DEF Inv
  <2>3. table'[Len(table) + 1] = t
    BY <2>1 DEF Inv
  <2>4. \A i \in 1..Len(table) : table[i] # t
    BY <1>3 DEF EnterNew, Known
  <2>5. \A i, j \in 1..Len(table') : table'[i] = table'[j] => i = j
    BY <2>2, <2>3, <2>4 DEF Inv
  <2>6. [tid |-> t, hit |-> FALSE, id |-> Len(table)] \in Entry
    BY DEF Entry, Inv
  <2>7. stack' \in Seq(Entry) /\ Len(stack') = Len(stack) + 1 /\ \A k \in 1..Len(stack) : stack'[k] = stack[k]
    BY <2>1, <2>6 DEF Inv
  <2>8. stack'[Len(stack) + 1] = [tid |-> t, hit |-> FALSE, id |-> Len(table)]
    BY <2>1 DEF Inv
  <2>9. \A k \in 1..Len(stack') : stack'[k].id < Len(table') /\ table'[stack'[k].id + 1] = stack'[k].tid
    <3> SUFFICES ASSUME NEW k \in 1..Len(stack') PROVE stack'[k].id < Len(table') /\ table'[stack'[k].id + 1] = stack'[k].tid
      OBVIOUS
    <3>1. CASE k \in 1..Len(stack)
      <4>1. stack'[k] = stack[k] /\ stack[k] \in Entry
        BY <3>1, <2>7 DEF Inv
      <4>2. stack[k].id \in Nat /\ stack[k].id < Len(table) /\ table[stack[k].id + 1] = stack[k].tid
        BY <3>1, <4>1 DEF Inv, Entry
      <4>3. stack[k].id + 1 \in 1..Len(table)
        BY <4>2 DEF Inv
      <4>4. table'[stack[k].id + 1] = table[stack[k].id + 1]
        BY <4>3, <2>2
      <4> QED BY <4>1, <4>2, <4>4, <2>2 DEF Inv
    <3>2. CASE k = Len(stack) + 1
      BY <3>2, <2>2, <2>3, <2>8 DEF Inv
    <3> QED BY <3>1, <3>2, <2>7 DEF Inv
  <2> QED BY <2>2, <2>5, <2>7, <2>9 DEF Inv
<1>4. CASE Exit
  <2>1. stack' = SubSeq(stack, 1, Len(stack) - 1) /\ table' = table /\ Len(stack) >= 1
    BY <1>4 DEF Exit, Inv
  <2>2. stack' \in Seq(Entry) /\ Len(stack') = Len(stack) - 1 /\ \A k \in 1..(Len(stack) - 1) : stack'[k] = stack[k]
    BY <2>1 DEF Inv
  <2> QED BY <2>1, <2>2 DEF Inv
<1> QED BY <1>1, <1>2, <1>3, <1>4 DEF Next

THEOREM Safety == Spec => []Inv
  BY InvInit, InvStep, PTL DEF Spec

\* ids are stable: a step never renumbers or removes what the table holds (the step form of C11 (i) for the discipline)
Stable == Len(table') >= Len(table) /\ \A i \in 1..Len(table) : table'[i] = table[i]
THEOREM StableStep == Inv /\ [Next]_vars => Stable
<1> SUFFICES ASSUME Inv, [Next]_vars PROVE Stable
  OBVIOUS
<1>1. CASE UNCHANGED vars
  BY <1>1 DEF Inv, vars, Stable
<1>2. ASSUME NEW t \in Ids, EnterHit(t) PROVE Stable
  BY <1>2 DEF EnterHit, Inv, Stable
<1>3. ASSUME NEW t \in Ids, EnterNew(t) PROVE Stable
  <2>1. table' = Append(table, t)
    BY <1>3 DEF EnterNew
  <2>2. Len(table') = Len(table) + 1 /\ \A i \in 1..Len(table) : table'[i] = table[i]
    BY <2>1 DEF Inv
  <2> QED BY <2>2 DEF Stable, Inv
<1>4. CASE Exit
  BY <1>4 DEF Exit, Inv, Stable
<1> QED BY <1>1, <1>2, <1>3, <1>4 DEF Next
=============================================================================
