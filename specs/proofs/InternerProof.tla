--------------------------- MODULE InternerProof ---------------------------
(***************************************************************************)
(* Unbounded safety of the interner (specs/Interner.tla) with the TLA+     *)
(* proof system: for ANY set of values and any number of operations the    *)
(* table is duplicate-free and the inverse index agrees with it            *)
(* (Bijective), and the list only ever grows at its end (AppendOnly's      *)
(* step form).  TLC checks the same statements exhaustively for 4-5        *)
(* values; this removes the bound on the design side.  Checked by          *)
(* `tlapm specs/proofs/InternerProof.tla` (bin/check X03).                 *)
(* The module restates the actions of Interner.tla on the two variables    *)
(* that carry state (the observation variable `ret` does not influence     *)
(* them).                                                                  *)
(***************************************************************************)
EXTENDS Naturals, Sequences, TLAPS
CONSTANT V
VARIABLES imap, ivec

Known(v) == v \in DOMAIN imap
Init == imap = [x \in {} |-> 0] /\ ivec = <<>>
Intern(v) == IF Known(v) THEN UNCHANGED <<imap, ivec>>
             ELSE /\ imap' = [x \in DOMAIN imap \cup {v} |-> IF x = v THEN Len(ivec) ELSE imap[x]]
                  /\ ivec' = Append(ivec, v)
Next == (\E v \in V : Intern(v)) \/ UNCHANGED <<imap, ivec>>      \* get / resolve / elements / next_type_id / finish change nothing
Spec == Init /\ [][Next]_<<imap, ivec>>

Inv == /\ ivec \in Seq(V)
       /\ DOMAIN imap = {ivec[i] : i \in 1..Len(ivec)}
       /\ \A i \in 1..Len(ivec) : imap[ivec[i]] = i - 1
Bijective == Inv /\ \A i, j \in 1..Len(ivec) : ivec[i] = ivec[j] => i = j

LEMMA InvInit == Init => Inv
  BY DEF Init, Inv

LEMMA InvStep == Inv /\ [Next]_<<imap, ivec>> => Inv'
<1> SUFFICES ASSUME Inv, [Next]_<<imap, ivec>> PROVE Inv'
  OBVIOUS
<1>1. CASE UNCHANGED <<imap, ivec>>
  BY <1>1 DEF Inv
<1>2. ASSUME NEW v \in V, Intern(v) PROVE Inv'
  <2>1. CASE Known(v)
    BY <1>2, <2>1 DEF Intern, Inv
  <2>2. CASE ~Known(v)
    <3>1. imap' = [x \in DOMAIN imap \cup {v} |-> IF x = v THEN Len(ivec) ELSE imap[x]] /\ ivec' = Append(ivec, v)
      BY <1>2, <2>2 DEF Intern
    <3>2. ivec' \in Seq(V) /\ Len(ivec') = Len(ivec) + 1 /\ \A i \in 1..Len(ivec) : ivec'[i] = ivec[i]
      BY <3>1 DEF Inv
    <3>3. ivec'[Len(ivec) + 1] = v
      BY <3>1 DEF Inv
    <3>4. \A i \in 1..Len(ivec) : ivec[i] # v
      BY <2>2 DEF Inv, Known
    <3>5. DOMAIN imap' = {ivec'[i] : i \in 1..Len(ivec')}
      BY <3>1, <3>2, <3>3 DEF Inv
    <3>6. \A i \in 1..Len(ivec') : imap'[ivec'[i]] = i - 1
      BY <3>1, <3>2, <3>3, <3>4 DEF Inv
    <3> QED BY <3>2, <3>5, <3>6 DEF Inv
  <2> QED BY <2>1, <2>2
<1> QED BY <1>1, <1>2 DEF Next

\* duplicate-freeness follows from the index: two positions with one value have one index
LEMMA InvImpliesBijective == Inv => Bijective
  BY DEF Inv, Bijective

THEOREM Safety == Spec => []Bijective
<1>1. Spec => []Inv
  BY InvInit, InvStep, PTL DEF Spec
<1> QED BY <1>1, InvImpliesBijective, PTL

\* the list grows only at its end and never changes what it holds (the step form of AppendOnly)
Grows(k) == Len(ivec') = Len(ivec) + k /\ \A i \in 1..Len(ivec) : ivec'[i] = ivec[i]
THEOREM AppendOnlyStep == Inv /\ [Next]_<<imap, ivec>> => Grows(0) \/ Grows(1)
<1> SUFFICES ASSUME Inv, [Next]_<<imap, ivec>> PROVE Grows(0) \/ Grows(1)
  OBVIOUS
<1>1. CASE UNCHANGED <<imap, ivec>>
  <2>1. Grows(0) BY <1>1 DEF Inv, Grows
  <2> QED BY <2>1
<1>2. ASSUME NEW v \in V, Intern(v) PROVE Grows(0) \/ Grows(1)
  <2>1. CASE Known(v)
    <3>1. Grows(0) BY <1>2, <2>1 DEF Intern, Inv, Grows
    <3> QED BY <3>1
  <2>2. CASE ~Known(v)
    <3>1. ivec' = Append(ivec, v) BY <1>2, <2>2 DEF Intern
    <3>2. Grows(1) BY <3>1 DEF Inv, Grows
    <3> QED BY <3>2
  <2> QED BY <2>1, <2>2
<1> QED BY <1>1, <1>2 DEF Next
=============================================================================
