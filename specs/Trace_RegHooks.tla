---------------------------- MODULE Trace_RegHooks ----------------------------
(* Implementation -> specification: the hook events of ONE registry after another (the check groups the log by       *)
(* process and registry tag; registries are independent objects). A `new` event starts the next registry.            *)
EXTENDS RegHooks, Json, IOUtils, TLC
Rec == ndJsonDeserialize(IOEnv.TRACE)
VARIABLE l
tvars == <<l, table, stack>>
TInit == l = 1 /\ HInit
TNext == /\ l <= Len(Rec)
         /\ LET e == Rec[l] IN
            CASE e.ev = "new" -> table' = <<>> /\ stack' = <<>>
              [] e.ev = "enter" -> Enter(e.tid)
              [] e.ev = "exit" -> Exit(e.tid, e.id, e.inserted)
              [] e.ev = "finish" -> Finish(e.ids)
         /\ l' = l + 1
TSpec == TInit /\ [][TNext]_tvars
Track == TLCSet(1, l)
Accepted == IF TLCGet(1) = Len(Rec) + 1 THEN TRUE
            ELSE Print(<<"REJECTED at event", TLCGet(1), Rec[TLCGet(1)].ev>>, FALSE)
=============================================================================
