---------------------------- MODULE MC_Registry ----------------------------
(* Bounded exhaustive design check of Registry: every universe on N        *)
(* identities with <= MaxKids ordered children per identity (cycles,       *)
(* self-loops, sharing, unreachable nodes, alias spellings on child edges),*)
(* every history of <= MaxHist root registrations.  Also the case emitter  *)
(* for the spec -> implementation replay.                                  *)
EXTENDS Registry, Shapes, Json
CONSTANTS N, MaxKids, MaxHist, WithMany
VARIABLES hist, rets
mvars == <<info, table, types, stack, evals, ret, hist, rets>>
Ids == 0..(N-1)
KidSeqs == UNION {[1..k -> Ids] : k \in 0..MaxKids}
W(t, k) == (t + k) % 6                     \* wrapper of the k-th child edge of node t
SpOf(t, ks, k) == [t |-> ks[k], w |-> W(t, k)]
Sel(t, ks) == t + (IF Len(ks) >= 1 THEN ks[1] ELSE 0) + (IF Len(ks) >= 2 THEN 2 * ks[2] ELSE 0)
InfoOf(t, ks) == ShapeBody(t, [k \in 1..Len(ks) |-> SpOf(t, ks, k)], Sel(t, ks))
PhantomInfo == [path |-> <<"PhantomData">>, params |-> <<>>, def |-> [tag |-> "composite", fields |-> <<>>],
                docs |-> <<"PhantomData placeholder, this type should be filtered out">>]
UniverseOf(kids) == [t \in 0..N |-> IF t = N THEN PhantomInfo ELSE InfoOf(t, kids[t])]

Init == /\ \E kids \in [Ids -> KidSeqs] : RInit(UniverseOf(kids))
        /\ hist = <<>> /\ rets = <<>>
RootSp(t) == [t |-> t, w |-> Len(hist) % 6]
Call == /\ Len(hist) < MaxHist
        /\ \/ \E t \in Ids : CallRegister(RootSp(t)) /\ hist' = Append(hist, <<"one", RootSp(t)>>)
           \/ /\ WithMany
              /\ \E a, b \in Ids : LET sps == <<[t |-> a, w |-> 1], [t |-> b, w |-> 0]>> IN
                    CallRegisterMany(sps) /\ hist' = Append(hist, <<"many", sps>>)
Return == /\ Quiescent /\ ret # NoRet /\ rets' = Append(rets, ret) /\ ret' = NoRet
          /\ UNCHANGED <<info, table, types, stack, evals, hist>>
Next == \/ ret = NoRet /\ Call /\ rets' = rets
        \/ (Child \/ Complete) /\ UNCHANGED <<hist, rets>>
        \/ Return
Spec == Init /\ [][Next]_mvars /\ WF_mvars(((Child \/ Complete) /\ UNCHANGED <<hist, rets>>) \/ Return)

Roots == UNION { IF hist[i][1] = "one" THEN {Ident(hist[i][2])} ELSE {Ident(hist[i][2][k]) : k \in 1..Len(hist[i][2])} : i \in 1..Len(hist) }
\* C05(ii) / C11(iii): at quiescence the registry holds exactly the identities reachable from the roots
C05_ExactlyReachable == Quiescent => {table[i] : i \in 1..Len(table)} = ReachFrom(Roots)
\* C05(i): a hit changes nothing
C05_HitIsNoop == [][(Quiescent /\ ret = NoRet /\ stack' = <<>> /\ ret' # NoRet /\ ret'[1] = "id") => (table' = table /\ types' = types /\ evals' = evals)]_mvars
\* C02: registration terminates
C02_Terminates == []<>(Quiescent /\ ret = NoRet)

Done == Quiescent /\ ret = NoRet /\ Len(rets) = MaxHist
Emit == Done => PrintT(<<"REPLAY", ToJson([info |-> [i \in 1..(N+1) |-> info[i-1]], hist |-> hist, rets |-> rets,
                                           types |-> Snapshot, evals |-> [i \in 1..(N+1) |-> evals[i-1]]])>>)
View == <<info, table, types, stack, evals, ret, hist>>
=============================================================================
