------------------------------ MODULE SITypes ------------------------------
(***************************************************************************)
(* The data model of scale-info as TLA+ values.                            *)
(*                                                                         *)
(* A type entry is a record                                                *)
(*   [path |-> Seq(String), params |-> Seq(Param), def |-> Def,            *)
(*    docs |-> Seq(String)]          (+ field `id` inside a registry)       *)
(* Param  = [name |-> String, ty |-> Opt(Ref)]                             *)
(* Field  = [name |-> Opt(String), ty |-> Ref, tn |-> Opt(String),         *)
(*           docs |-> Seq(String)]                                         *)
(* Variant= [name |-> String, fields |-> Seq(Field), index |-> 0..255,     *)
(*           docs |-> Seq(String)]                                         *)
(* Def    = [tag |-> "composite", fields |-> Seq(Field)]                   *)
(*        | [tag |-> "variant",   variants |-> Seq(Variant)]               *)
(*        | [tag |-> "sequence",  ty |-> Ref]                              *)
(*        | [tag |-> "array",     len |-> Nat, ty |-> Ref]                 *)
(*        | [tag |-> "tuple",     tys |-> Seq(Ref)]                        *)
(*        | [tag |-> "primitive", prim |-> String]                         *)
(*        | [tag |-> "compact",   ty |-> Ref]                              *)
(*        | [tag |-> "bitsequence", store |-> Ref, order |-> Ref]          *)
(* Options are sequences of length 0 or 1.  A Ref is whatever the form     *)
(* uses for "a type": a natural number (portable form), a spelling         *)
(* (compile-time form) -- the operators below are generic in it.           *)
(*                                                                         *)
(* Refs(e) lists every reference of an entry IN THE ORDER THE              *)
(* IMPLEMENTATION TRAVERSES THEM (Type::into_portable and retain_type):    *)
(* type parameters that carry a type, then the definition's children;      *)
(* for a bit sequence the store type, then the order type.                 *)
(***************************************************************************)
EXTENDS Naturals, Sequences, FiniteSets, SequencesExt

Some(x) == <<x>>
None    == <<>>
IsSome(o) == Len(o) = 1

SeqMap(f(_), s) == [i \in 1..Len(s) |-> f(s[i])]

ParamRefs(ps) == FlattenSeq([i \in 1..Len(ps) |-> ps[i].ty])
FieldRefs(fs) == [i \in 1..Len(fs) |-> fs[i].ty]

DefRefs(d) ==
  CASE d.tag = "composite"   -> FieldRefs(d.fields)
    [] d.tag = "variant"     -> FlattenSeq([i \in 1..Len(d.variants) |-> FieldRefs(d.variants[i].fields)])
    [] d.tag = "sequence"    -> <<d.ty>>
    [] d.tag = "array"       -> <<d.ty>>
    [] d.tag = "tuple"       -> d.tys
    [] d.tag = "primitive"   -> <<>>
    [] d.tag = "compact"     -> <<d.ty>>
    [] d.tag = "bitsequence" -> <<d.store, d.order>>

Refs(e) == ParamRefs(e.params) \o DefRefs(e.def)

(* Apply f to every reference, leaving everything else untouched. *)
MapField(fl, f(_)) == [fl EXCEPT !.ty = f(fl.ty)]
MapFields(fs, f(_)) == [i \in 1..Len(fs) |-> MapField(fs[i], f)]
MapParams(ps, f(_)) == [i \in 1..Len(ps) |-> [ps[i] EXCEPT !.ty = IF IsSome(@) THEN Some(f(@[1])) ELSE None]]
MapDef(d, f(_)) ==
  CASE d.tag = "composite"   -> [d EXCEPT !.fields = MapFields(@, f)]
    [] d.tag = "variant"     -> [d EXCEPT !.variants = [i \in 1..Len(@) |-> [@[i] EXCEPT !.fields = MapFields(@, f)]]]
    [] d.tag = "sequence"    -> [d EXCEPT !.ty = f(@)]
    [] d.tag = "array"       -> [d EXCEPT !.ty = f(@)]
    [] d.tag = "tuple"       -> [d EXCEPT !.tys = [i \in 1..Len(@) |-> f(@[i])]]
    [] d.tag = "primitive"   -> d
    [] d.tag = "compact"     -> [d EXCEPT !.ty = f(@)]
    [] d.tag = "bitsequence" -> [d EXCEPT !.store = f(@), !.order = f(@)]
MapRefs(e, f(_)) == [e EXCEPT !.params = MapParams(@, f), !.def = MapDef(@, f)]

(* Positional replacement: the k-th reference (in Refs order) becomes      *)
(* new[k].  This is what the recursion of register_type / retain_type      *)
(* computes: each recursive call returns the id that replaces the child it *)
(* was called for.                                                         *)
NSomeBefore(ps, i) == Cardinality({j \in 1..(i-1) : IsSome(ps[j].ty)})
SetParams(ps, new) == [i \in 1..Len(ps) |->
   [ps[i] EXCEPT !.ty = IF IsSome(@) THEN Some(new[NSomeBefore(ps, i) + 1]) ELSE None]]
SetFields(fs, new, off) == [i \in 1..Len(fs) |-> [fs[i] EXCEPT !.ty = new[off + i]]]
RECURSIVE SumLens(_, _)
SumLens(vs, n) == IF n = 0 THEN 0 ELSE SumLens(vs, n-1) + Len(vs[n].fields)
SetDef(d, new, off) ==
  CASE d.tag = "composite"   -> [d EXCEPT !.fields = SetFields(@, new, off)]
    [] d.tag = "variant"     -> [d EXCEPT !.variants = [i \in 1..Len(@) |->
                                   [@[i] EXCEPT !.fields = SetFields(@, new, off + SumLens(d.variants, i-1))]]]
    [] d.tag = "sequence"    -> [d EXCEPT !.ty = new[off+1]]
    [] d.tag = "array"       -> [d EXCEPT !.ty = new[off+1]]
    [] d.tag = "tuple"       -> [d EXCEPT !.tys = [i \in 1..Len(@) |-> new[off+i]]]
    [] d.tag = "primitive"   -> d
    [] d.tag = "compact"     -> [d EXCEPT !.ty = new[off+1]]
    [] d.tag = "bitsequence" -> [d EXCEPT !.store = new[off+1], !.order = new[off+2]]
SetRefs(e, new) == [e EXCEPT !.params = SetParams(@, new),
                             !.def = SetDef(@, new, Len(ParamRefs(e.params)))]

(***************************************************************************)
(* Registries in portable form: a sequence r of entries each carrying an   *)
(* `id`; position p (1-based) holds the entry the implementation keeps at  *)
(* index p-1.                                                              *)
(***************************************************************************)
Resolve(r, i) == IF i + 1 \in 1..Len(r) THEN Some(r[i+1]) ELSE None   \* positional, as the code does
Dense(r)  == \A p \in 1..Len(r) : r[p].id = p - 1
Closed(r) == \A p \in 1..Len(r) : \A q \in Range(Refs(r[p])) : q \in 0..(Len(r)-1)
WellFormed(r) == Dense(r) /\ Closed(r)
ResolveOK(r) == \A p \in 1..Len(r) : Resolve(r, p-1) = Some(r[p]) /\ Resolve(r, p-1)[1].id = p - 1

Body(e) == [path |-> e.path, params |-> e.params, def |-> e.def, docs |-> e.docs]
WithId(b, i) == [id |-> i, path |-> b.path, params |-> b.params, def |-> b.def, docs |-> b.docs]

(***************************************************************************)
(* Equality of two registries up to a renaming of ids: starting from seed  *)
(* pairs <<id in r1, id in r2>> (the ids returned for the same root),      *)
(* follow references pairwise; the relation reached must be a partial      *)
(* bijection under which every paired entry of r1 maps onto its partner.   *)
(***************************************************************************)
MinNat(a, b) == IF a < b THEN a ELSE b
RECURSIVE IsoGrow(_, _, _)
IsoGrow(M, r1, r2) ==
  LET nxt == M \cup UNION { LET a == Refs(r1[p[1]+1]) b == Refs(r2[p[2]+1]) IN
                              {<<a[k], b[k]>> : k \in 1..MinNat(Len(a), Len(b))} : p \in M }
  IN IF nxt = M THEN M ELSE IsoGrow(nxt, r1, r2)
IsBijection(S) == \A p, q \in S : (p[1] = q[1]) <=> (p[2] = q[2])
RegIso(r1, r2, seeds) ==
  IF ~(WellFormed(r1) /\ WellFormed(r2)) THEN Len(r1) = Len(r2)      \* ill-formedness is C01's finding; two registries of
                                                                       \* one root set still have the same number of entries
  ELSE IF \E p \in seeds : p[1] >= Len(r1) \/ p[2] >= Len(r2) THEN FALSE      \* a handed-out id does not resolve
  ELSE LET M == IsoGrow(seeds, r1, r2)
           f == [a \in {x[1] : x \in M} |-> CHOOSE b \in {x[2] : x \in M} : <<a, b>> \in M] IN
       /\ Len(r1) = Len(r2)
       /\ IsBijection(M)
       /\ \A p \in M : Body(MapRefs(r1[p[1]+1], LAMBDA a : f[a])) = Body(r2[p[2]+1])

(***************************************************************************)
(* C02 on an EXTRACTED universe: nodes = the compile-time graph as walked  *)
(* through MetaType::type_info() (each with the TypeId of its identity,    *)
(* the id a real registry returned for it, and its definition with         *)
(* children as TypeIds); types = that registry.  Every node's id must      *)
(* resolve to its own definition with each child replaced by the child's   *)
(* id.                                                                     *)
(***************************************************************************)
FaithfulOK(nodes, types) ==
  LET Tids == {nodes[i].tid : i \in 1..Len(nodes)}
      IdOfTid(t) == nodes[CHOOSE i \in 1..Len(nodes) : nodes[i].tid = t].id IN
  \A i \in 1..Len(nodes) :
     /\ Range(Refs(nodes[i].info)) \subseteq Tids
     /\ nodes[i].id < Len(types)
     /\ types[nodes[i].id + 1].id = nodes[i].id
     /\ Body(types[nodes[i].id + 1]) = MapRefs(nodes[i].info, LAMBDA t : IdOfTid(t))

RECURSIVE ReachIds(_, _)
ReachIds(r, S) ==
  LET nxt == S \cup UNION {Range(Refs(r[i+1])) : i \in S} IN IF nxt = S THEN S ELSE ReachIds(r, nxt)
=============================================================================
