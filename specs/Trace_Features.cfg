SPECIFICATION Spec
CONSTRAINT Track
POSTCONDITION Accepted
CHECK_DEADLOCK FALSE
