CONSTANTS N = 3 MaxKids = 2
SPECIFICATION Spec
INVARIANT Emit
CHECK_DEADLOCK FALSE
