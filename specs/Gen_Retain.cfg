CONSTANTS N = 3 MaxKids = 2 WithOutside = TRUE KindShifts = {0, 1, 2, 3}
SPECIFICATION Spec
INVARIANT Emit
CHECK_DEADLOCK FALSE
