--------------------------- MODULE Trace_Surface ---------------------------
(* Implementation -> specification: every recorded Surface event (a random  *)
(* registry read through fields, through accessors, its paths, resolve      *)
(* probes and From<definition> conversions) must satisfy Surface!SurfaceOK. *)
EXTENDS Surface, Json, IOUtils
Rec == ndJsonDeserialize(IOEnv.TRACE)
VARIABLE l
XInit == l = 1
XNext == l <= Len(Rec) /\ SurfaceOK(Rec[l]) /\ l' = l + 1
XSpec == XInit /\ [][XNext]_l
Track == TLCSet(1, l)
Accepted == IF TLCGet(1) = Len(Rec) + 1 THEN TRUE
            ELSE Print(<<"REJECTED at event", TLCGet(1), Rec[TLCGet(1)].ev>>, FALSE)
=============================================================================
