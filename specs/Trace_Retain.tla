---------------------------- MODULE Trace_Retain ----------------------------
(* Implementation -> specification for PortableRegistry::retain: each       *)
(* recorded call (full registry before, accepted ids, returned map, full    *)
(* registry after) is re-run through the Retain specification on the        *)
(* concrete entries; the specification's result must be the observed one    *)
(* (Check = "C10"), or the observed result must be dense and closed         *)
(* (Check = "C01").  The specification's own invariants (DoneOK,            *)
(* PlaceholderNeverRead) are evaluated along the way.                       *)
EXTENDS Retain, Json, IOUtils
CONSTANT Check
Rec == ndJsonDeserialize(IOEnv.TRACE)
VARIABLE l
xvars == <<orig, keep, old, newT, rmap, stack, cursor, pc, phread, l>>
\* the filter is a total predicate on numbers: e.keep lists the accepted ids of the registry, e.outside is
\* its answer for every number that is no id (|_| true, |i| i # k ... accept such numbers)
KeepOf(e) == {e.keep[k] : k \in 1..Len(e.keep)} \cup
             (IF "outside" \in DOMAIN e /\ e.outside THEN {Len(e.old), Len(e.old) + 1, 2147483647} ELSE {})
XInit == l = 1 /\ TInitWith(Rec[1].old, KeepOf(Rec[1]))
XStep == pc = "loop" /\ RNext /\ l' = l
MapOf(ps) == [i \in {ps[k][1] : k \in 1..Len(ps)} |-> (CHOOSE k \in 1..Len(ps) : ps[k][1] = i) ]
MapFn(ps) == [i \in {ps[k][1] : k \in 1..Len(ps)} |-> ps[MapOf(ps)[i]][2]]
Accept(e) ==
  IF "panic" \in DOMAIN e THEN Check # "C10"       \* retain on a well-formed registry must return
  ELSE CASE Check = "C10" -> e.new = newT /\ MapFn(e.map) = rmap
         [] Check = "C01" -> WellFormed(e.new)
XAccept == /\ pc = "done" /\ l <= Len(Rec) /\ Accept(Rec[l])
           /\ l' = l + 1
           /\ IF l + 1 <= Len(Rec)
              THEN LET e == Rec[l+1] IN
                   /\ orig' = e.old /\ keep' = KeepOf(e) /\ old' = e.old /\ newT' = <<>> /\ rmap' = <<>>
                   /\ stack' = <<>> /\ cursor' = 0 /\ pc' = "loop" /\ phread' = FALSE
              ELSE /\ pc' = "end" /\ UNCHANGED <<orig, keep, old, newT, rmap, stack, cursor, phread>>
XNext == XStep \/ XAccept
XSpec == XInit /\ [][XNext]_xvars
Track == TLCSet(1, l)
Accepted == IF TLCGet(1) = Len(Rec) + 1 THEN TRUE
            ELSE Print(<<"REJECTED at event", TLCGet(1), Rec[TLCGet(1)].ev>>, FALSE)
=============================================================================
