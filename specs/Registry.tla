------------------------------ MODULE Registry ------------------------------
(***************************************************************************)
(* src/registry.rs + IntoPortable impls (src/ty/*.rs).                     *)
(*                                                                         *)
(* The compile-time side is a *universe*: identities 0..N-1 are user types *)
(* (N itself is the shared PhantomData identity), `info[t]` is the value   *)
(* `type_info()` returns for identity t, its references being *spellings*  *)
(* [t |-> node, w |-> wrapper]; a spelling's identity is what              *)
(* MetaType::type_id() reports for it (transparent wrappers share the      *)
(* target's identity, every PhantomData shares one).                       *)
(*                                                                         *)
(* The Rust recursion of register_type is made explicit with a stack of    *)
(* frames; one action per implementation step:                             *)
(*   Call*      a public call starts (only when no call is in flight)      *)
(*   Child      the top frame registers its next child:                    *)
(*                hit  -> the known id is delivered, nothing changes       *)
(*                miss -> id interned FIRST (this is what cuts cycles),    *)
(*                        type_info() evaluated (evals+1), frame pushed    *)
(*   Complete   all children done: definition inserted under its id, frame *)
(*              popped, id delivered to the caller                         *)
(***************************************************************************)
EXTENDS SITypes, TLC
CONSTANTS PhantomW       \* wrapper code of PhantomData<_>
VARIABLES info,    \* universe: identity -> compile-time type (refs are spellings)
          table,   \* Interner<TypeId>.vec: sequence of identities; id = position-1
          types,   \* BTreeMap<id, Type<PortableForm>>: partial function id -> body
          stack,   \* explicit recursion
          evals,   \* identity -> number of type_info() evaluations by this registry
          ret      \* result of the last completed public call
rvars == <<info, table, types, stack, evals, ret>>

NoRet == <<"none">>
NIds == Cardinality(DOMAIN info)           \* identities 0..NIds-1, the last one is the phantom identity
PhantomId == NIds - 1
Ident(sp) == IF sp.w = PhantomW THEN PhantomId ELSE sp.t

InTable(t) == \E i \in 1..Len(table) : table[i] = t
IdOf(t) == (CHOOSE i \in 1..Len(table) : table[i] = t) - 1

RInit(u) == /\ info = u /\ table = <<>> /\ types = <<>> /\ stack = <<>>
            /\ evals = [t \in DOMAIN u |-> 0] /\ ret = NoRet

Quiescent == stack = <<>>

Frame(fin, kids) == [fin |-> fin, kids |-> kids, next |-> 1, acc |-> <<>>]

\* hand a result to whoever is waiting for it
Deliver(st, id) ==
  IF st = <<>> THEN /\ stack' = st /\ ret' = <<"id", id>>
  ELSE /\ stack' = [st EXCEPT ![Len(st)] = [@ EXCEPT !.acc = Append(@, id), !.next = @ + 1]]
       /\ ret' = ret

\* Registry::register_type(&MetaType) entered with `st` as the stack below it
Intern(sp, st) ==
  LET t == Ident(sp) IN
  IF InTable(t)
  THEN /\ Deliver(st, IdOf(t))
       /\ UNCHANGED <<table, evals>>
  ELSE /\ table' = Append(table, t)                       \* intern_type_id: before anything else
       /\ evals' = [evals EXCEPT ![t] = @ + 1]            \* ty.type_info()
       /\ stack' = Append(st, Frame([k |-> "type", t |-> t, id |-> Len(table)], Refs(info[t])))
       /\ ret' = ret

CallRegister(sp) ==                                        \* register_type
  /\ Quiescent /\ Intern(sp, <<>>) /\ UNCHANGED <<info, types>>
CallRegisterMany(sps) ==                                   \* register_types
  /\ Quiescent /\ stack' = <<Frame([k |-> "many"], sps)>>
  /\ UNCHANGED <<info, table, types, evals, ret>>
CallMapFields(fs) ==                                       \* map_into_portable over Field<MetaForm>
  /\ Quiescent /\ stack' = <<Frame([k |-> "fields", items |-> fs], FieldRefs(fs))>>
  /\ UNCHANGED <<info, table, types, evals, ret>>

Top == stack[Len(stack)]
Child ==
  /\ stack # <<>> /\ Top.next <= Len(Top.kids)
  /\ Intern(Top.kids[Top.next], stack)
  /\ UNCHANGED <<info, types>>
Complete ==
  /\ stack # <<>> /\ Top.next > Len(Top.kids)
  /\ LET st == SubSeq(stack, 1, Len(stack) - 1)
         f == Top.fin IN
     CASE f.k = "type"   -> /\ types' = (f.id :> SetRefs(info[f.t], Top.acc)) @@ types
                            /\ Deliver(st, f.id)
       [] f.k = "many"   -> /\ types' = types /\ stack' = st /\ ret' = <<"ids", Top.acc>>
       [] f.k = "fields" -> /\ types' = types /\ stack' = st /\ ret' = <<"fields", SetFields(f.items, Top.acc, 0)>>
  /\ UNCHANGED <<info, table, evals>>

\* Registry::types() / From<Registry> for PortableRegistry: BTreeMap iteration = ascending id
SortedIds == SetToSortSeq(DOMAIN types, LAMBDA a, b : a < b)
Snapshot == [p \in 1..Len(SortedIds) |-> WithId(types[SortedIds[p]], SortedIds[p])]

(***************************************************************************)
(* Properties                                                              *)
(***************************************************************************)
KidIdents(t) == {Ident(Refs(info[t])[k]) : k \in 1..Len(Refs(info[t]))}
RECURSIVE ReachFrom(_)
ReachFrom(S) == LET nxt == S \cup UNION {KidIdents(t) : t \in S} IN IF nxt = S THEN S ELSE ReachFrom(nxt)

\* C01: at quiescence the registry is dense and closed; mid-recursion it is not (ids without entry)
C01_WellFormed == Quiescent => WellFormed(Snapshot) /\ ResolveOK(Snapshot)
\* C02: every stored entry is the image of the identity's own type_info()
PortableOf(t) == MapRefs(info[t], LAMBDA s : IdOf(Ident(s)))
C02_Faithful == \A i \in DOMAIN types : types[i] = PortableOf(table[i+1])
\* C05: evaluated at most once; one entry per identity
C05_Once == \A t \in DOMAIN info : evals[t] <= 1
C05_OnePerIdentity == /\ \A i, j \in 1..Len(table) : table[i] = table[j] => i = j
                      /\ Quiescent => DOMAIN types = 0..(Len(table) - 1)
\* C11: ids are never renumbered, entries never altered
C11_Stable == [][ /\ IsPrefix(table, table')
                  /\ \A i \in DOMAIN types : i \in DOMAIN types' /\ types'[i] = types[i] ]_rvars
\* mid-recursion openness (vacuity probe: expected to be violated)
Probe_NeverOpen == Quiescent \/ DOMAIN types = 0..(Len(table) - 1)
=============================================================================
