CONSTANTS Mode = "fault" MaxFaults = 1 Stride = 1
SPECIFICATION Spec
INVARIANT FormatCanonical
VIEW View
CHECK_DEADLOCK FALSE
