CONSTANTS V = {"a","b","c","d"} MaxProbe = 5
SPECIFICATION Spec
INVARIANT Bijective ListAnswers
PROPERTY AppendOnly NextIdAnnounced
VIEW View
CHECK_DEADLOCK FALSE
