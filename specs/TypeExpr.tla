------------------------------ MODULE TypeExpr ------------------------------
(***************************************************************************)
(* The compile-time universe of BUILT-IN types (src/impls.rs), as          *)
(* expressions  [c |-> constructor, a |-> Seq(argument), n |-> length]     *)
(* (n only meaningful for "Array").                                        *)
(*                                                                         *)
(*  NF(e)            identity normal form: the identity a spelling declares*)
(*                   (C05): Box/Rc/Arc/&/&mut are transparent AT THE HEAD, *)
(*                   repeatedly; Vec/VecDeque/slice one class; String/str  *)
(*                   one class; every PhantomData one class; arguments of  *)
(*                   any other constructor are left alone.                 *)
(*  BuiltinInfo(e)   the documented definition of every built-in, children *)
(*                   being expressions (C04 shape, C17 phantom erasure).   *)
(*  "Local" (n = 1, 2) are two USER types with the same name, the same     *)
(*  path and the same module (same-named items of two blocks of one        *)
(*  function): type identity is the only thing that tells them apart.      *)
(***************************************************************************)
EXTENDS SITypes, TLC

E0(c) == [c |-> c, a |-> <<>>, n |-> 0]
E1(c, x) == [c |-> c, a |-> <<x>>, n |-> 0]
E2(c, x, y) == [c |-> c, a |-> <<x, y>>, n |-> 0]
Tup(xs) == [c |-> "Tuple", a |-> xs, n |-> 0]
ArrE(n, x) == [c |-> "Array", a |-> <<x>>, n |-> n]

UInts == {"u8", "u16", "u32", "u64", "u128"}
SInts == {"i8", "i16", "i32", "i64", "i128"}
PrimLeaves == UInts \cup SInts \cup {"bool", "char"}
NonZeros == {"NonZeroU8", "NonZeroU16", "NonZeroU32", "NonZeroU64", "NonZeroU128", "NonZeroI8", "NonZeroI16", "NonZeroI32", "NonZeroI64", "NonZeroI128"}
NonZeroInner(c) == CASE c = "NonZeroU8" -> "u8" [] c = "NonZeroU16" -> "u16" [] c = "NonZeroU32" -> "u32" [] c = "NonZeroU64" -> "u64"
                     [] c = "NonZeroU128" -> "u128" [] c = "NonZeroI8" -> "i8" [] c = "NonZeroI16" -> "i16" [] c = "NonZeroI32" -> "i32"
                     [] c = "NonZeroI64" -> "i64" [] c = "NonZeroI128" -> "i128"
Transparent == {"Box", "Rc", "Arc", "Ref", "RefMut"}
SeqLike == {"Vec", "VecDeque", "Slice"}

RECURSIVE NF(_)
NF(e) == CASE e.c \in Transparent -> NF(e.a[1])
           [] e.c \in SeqLike -> E1("Slice", e.a[1])
           [] e.c \in {"String", "str"} -> E0("str")
           [] e.c = "PhantomData" -> E1("PhantomData", Tup(<<>>))
           [] OTHER -> e
IsPhantom(e) == NF(e).c = "PhantomData"

\* builders filter members whose type is (an alias of) PhantomData
Fld(name, ty, tn) == [name |-> name, ty |-> ty, tn |-> tn, docs |-> <<>>]
KeepFields(fs) == SelectSeq(fs, LAMBDA f : ~IsPhantom(f.ty))
Prm(n, ty) == [name |-> n, ty |-> Some(ty)]
Ty(path, params, def, docs) == [path |-> path, params |-> params, def |-> def, docs |-> docs]
Composite(fs) == [tag |-> "composite", fields |-> KeepFields(fs)]
Vr(name, idx, fs) == [name |-> name, fields |-> KeepFields(fs), index |-> idx, docs |-> <<>>]
PhantomDocs(docsOn) == IF docsOn THEN <<"PhantomData placeholder, this type should be filtered out">> ELSE <<>>

RECURSIVE BuiltinInfo(_, _)
BuiltinInfo(e, docsOn) ==
  LET c == e.c  x == IF Len(e.a) >= 1 THEN e.a[1] ELSE E0("u8")  y == IF Len(e.a) >= 2 THEN e.a[2] ELSE E0("u8") IN
  CASE c \in PrimLeaves -> Ty(<<>>, <<>>, [tag |-> "primitive", prim |-> c], <<>>)
    [] c \in {"str", "String"} -> Ty(<<>>, <<>>, [tag |-> "primitive", prim |-> "str"], <<>>)
    [] c = "Array" -> Ty(<<>>, <<>>, [tag |-> "array", len |-> e.n, ty |-> x], <<>>)
    [] c = "Tuple" -> Ty(<<>>, <<>>, [tag |-> "tuple", tys |-> SelectSeq(e.a, LAMBDA m : ~IsPhantom(m))], <<>>)
    [] c \in NonZeros -> Ty(<<c>>, <<>>, Composite(<<Fld(None, E0(NonZeroInner(c)), None)>>), <<>>)
    [] c = "Duration" -> Ty(<<"Duration">>, <<>>, Composite(<<Fld(None, E0("u64"), Some("u64")), Fld(None, E0("u32"), Some("u32"))>>), <<>>)
    [] c \in SeqLike -> Ty(<<>>, <<>>, [tag |-> "sequence", ty |-> x], <<>>)
    [] c = "Option" -> Ty(<<"Option">>, <<Prm("T", x)>>, [tag |-> "variant", variants |-> <<Vr("None", 0, <<>>), Vr("Some", 1, <<Fld(None, x, None)>>)>>], <<>>)
    [] c = "Result" -> Ty(<<"Result">>, <<Prm("T", x), Prm("E", y)>>, [tag |-> "variant", variants |-> <<Vr("Ok", 0, <<Fld(None, x, None)>>), Vr("Err", 1, <<Fld(None, y, None)>>)>>], <<>>)
    [] c = "Cow" -> Ty(<<"Cow">>, <<Prm("T", x)>>, Composite(<<Fld(None, x, None)>>), <<>>)
    [] c = "BTreeMap" -> Ty(<<"BTreeMap">>, <<Prm("K", x), Prm("V", y)>>, Composite(<<Fld(None, E1("Slice", Tup(<<x, y>>)), None)>>), <<>>)
    [] c = "BTreeSet" -> Ty(<<"BTreeSet">>, <<Prm("T", x)>>, Composite(<<Fld(None, E1("Slice", x), None)>>), <<>>)
    [] c = "BinaryHeap" -> Ty(<<"BinaryHeap">>, <<Prm("T", x)>>, Composite(<<Fld(None, E1("Slice", x), None)>>), <<>>)
    [] c \in Transparent -> BuiltinInfo(x, docsOn)
    [] c = "PhantomData" -> Ty(<<"PhantomData">>, <<>>, [tag |-> "composite", fields |-> <<>>], PhantomDocs(docsOn))
    [] c = "Compact" -> Ty(<<>>, <<>>, [tag |-> "compact", ty |-> x], <<>>)
    [] c \in {"Range", "RangeInclusive"} -> Ty(<<c>>, <<Prm("Idx", x)>>, Composite(<<Fld(Some("start"), x, Some("Idx")), Fld(Some("end"), x, Some("Idx"))>>), <<>>)
    [] c = "BitVec" -> Ty(<<>>, <<>>, [tag |-> "bitsequence", store |-> x, order |-> y], <<>>)
    \* user types (hand-written TypeInfo) that share NAME AND PATH but are different types: e.n tells them apart
    [] c = "Local" -> Ty(<<"user", "Local">>, <<>>, Composite(<<Fld(None, E0(IF e.n = 1 THEN "u8" ELSE "u16"), None)>>), <<>>)
    [] c \in {"Lsb0", "Msb0"} -> Ty(<<"bitvec", "order", c>>, <<>>, [tag |-> "composite", fields |-> <<>>], <<>>)

\* the expressions an expression's definition mentions (so that a corpus can be closed under reference)
Children(e) == Range(Refs(BuiltinInfo(e, FALSE)))
RECURSIVE Closure(_)
Closure(S) == LET nxt == S \cup UNION {Children(e) : e \in S} IN IF nxt = S THEN S ELSE Closure(nxt)

\* C17: no definition lists a PhantomData member as a field or tuple element
NoPhantomMember(info) ==
  CASE info.def.tag = "composite" -> \A i \in 1..Len(info.def.fields) : ~IsPhantom(info.def.fields[i].ty)
    [] info.def.tag = "variant" -> \A i \in 1..Len(info.def.variants) : \A j \in 1..Len(info.def.variants[i].fields) : ~IsPhantom(info.def.variants[i].fields[j].ty)
    [] info.def.tag = "tuple" -> \A i \in 1..Len(info.def.tys) : ~IsPhantom(info.def.tys[i])
    [] OTHER -> TRUE
=============================================================================
