SPECIFICATION Spec
INVARIANT NoDuplicate OpenAreKnown OnlyTopMayBeHit NoSelfNesting
CHECK_DEADLOCK FALSE
