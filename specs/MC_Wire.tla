------------------------------ MODULE MC_Wire ------------------------------
(***************************************************************************)
(* Mode "layout": enumerates registries production by production (every    *)
(*   definition kind, every primitive, ids across the eight compact-size   *)
(*   boundaries, absent/empty/short/64-byte/multi-byte strings, 0/1/2/64   *)
(*   element vectors, non-dense ids); checks the format lemma RoundTrip    *)
(*   and prints <<registry, bytes>> cases for the conformance replay.      *)
(* Mode "fault": the fault machine for C14.  `bytes` starts as the         *)
(*   encoding of a base registry; each step applies one fault (truncate,   *)
(*   flip a bit, set a byte, insert, delete, corrupt a length prefix);     *)
(*   depth <= MaxFaults.  Checks the format lemma Canonical on every       *)
(*   reachable byte string and prints each as a case with the independent  *)
(*   decoder's verdict.                                                    *)
(***************************************************************************)
EXTENDS Wire, Json
CONSTANTS Mode, MaxFaults, Stride, BigLens
VARIABLES reg, bytes, nf, what
vars == <<reg, bytes, nf, what>>

Q(n) == NatQ(n)
QMAX == <<255, 255, 255, 255>>
QIds == { Q(0), Q(63), Q(64), Q(16383), Q(16384), <<255,255,255,63>>, <<0,0,0,64>>, QMAX }
Rep(c, n) == [i \in 1..n |-> c]
InnerLens == {63, 255, 256, 257}      \* around the 1->2 byte compact prefix and the u8 boundary
BigInner == BigLens                      \* tuple members and docs take the big lengths too
S0 == <<>>  Sa == <<97>>  S64 == Rep(120, 64)  Se == <<195, 169>>  S4 == <<240, 159, 152, 128>>
Strs == {S0, Sa, S64, Se, S4}
OptStrs == {<<>>, <<S0>>, <<Sa>>, <<S64>>}
DocSets == {<<>>, <<Sa>>, <<Se, S0>>, Rep(Sa, 64)}
Fld(n, t, tn, d) == [name |-> n, ty |-> t, tn |-> tn, docs |-> d]
Fields == {Fld(n, t, tn, d) : n \in OptStrs, t \in QIds, tn \in OptStrs, d \in {<<>>, <<Se, S0>>}}
F0 == Fld(<<Sa>>, Q(1), <<>>, <<>>)
Var(n, fs, i, d) == [name |-> n, fields |-> fs, index |-> i, docs |-> d]
Variants == {Var(n, fs, i, d) : n \in Strs, fs \in {<<>>, <<F0>>, <<F0, Fld(<<>>, Q(64), <<Sa>>, <<Sa>>)>>}, i \in {0, 1, 127, 128, 255}, d \in {<<>>, <<S4>>}}
Defs == {[tag |-> "composite", fields |-> <<f>>] : f \in Fields}
   \cup {[tag |-> "composite", fields |-> fs] : fs \in {<<>>, <<F0, F0>>, Rep(F0, 64)}}
   \cup {[tag |-> "variant", variants |-> <<v>>] : v \in Variants}
   \cup {[tag |-> "variant", variants |-> vs] : vs \in {<<>>, Rep(Var(Sa, <<>>, 9, <<>>), 64)}}
   \* every sequence-valued part at the length classes around the compact-prefix and u8 boundaries
   \cup {[tag |-> "composite", fields |-> Rep(F0, n)] : n \in InnerLens}
   \cup {[tag |-> "variant", variants |-> [i \in 1..n |-> Var(Sa, <<>>, (i - 1) % 256, <<>>)]] : n \in InnerLens}
   \cup {[tag |-> "variant", variants |-> <<Var(Sa, Rep(F0, n), 0, <<>>)>>] : n \in InnerLens}
   \cup {[tag |-> "variant", variants |-> <<Var(Sa, <<>>, 0, Rep(S0, n))>>] : n \in InnerLens}
   \cup {[tag |-> "composite", fields |-> <<Fld(<<Sa>>, Q(1), <<>>, Rep(Sa, n))>>] : n \in InnerLens}
   \cup {[tag |-> "composite", fields |-> <<Fld(<<Rep(97, n)>>, Q(1), <<Rep(98, n)>>, <<>>)>>] : n \in InnerLens}
   \cup {[tag |-> "tuple", tys |-> Rep(Q(5), n)] : n \in InnerLens \cup BigInner}
   \cup {[tag |-> "sequence", ty |-> t] : t \in QIds}
   \cup {[tag |-> "array", len |-> n, ty |-> t] : n \in QIds, t \in {Q(0), QMAX, Q(64)}}
   \cup {[tag |-> "tuple", tys |-> ts] : ts \in {<<>>, <<Q(0)>>, <<Q(64), QMAX>>, Rep(Q(5), 64)}}
   \cup {[tag |-> "tuple", tys |-> <<t>>] : t \in QIds}
   \cup {[tag |-> "primitive", prim |-> Prims[i]] : i \in 1..15}
   \cup {[tag |-> "compact", ty |-> t] : t \in QIds}
   \cup {[tag |-> "bitsequence", store |-> s, order |-> o] : s \in QIds, o \in QIds}
Prm(n, t) == [name |-> n, ty |-> t]
ParamSets == {<<>>, <<Prm(Sa, <<>>)>>, <<Prm(Sa, <<Q(0)>>)>>, <<Prm(S0, <<QMAX>>), Prm(Se, <<>>)>>, Rep(Prm(Sa, <<Q(64)>>), 64)}
      \cup {<<Prm(Sa, <<t>>)>> : t \in QIds}
Paths == {<<>>, <<Sa>>, <<Sa, S64>>, <<Se, S0, S4>>, Rep(Sa, 64)}
Ty(i, p, ps, d, dc) == [id |-> i, path |-> p, params |-> ps, def |-> d, docs |-> dc]
D0 == [tag |-> "primitive", prim |-> "u8"]
Regs ==    {<<Ty(Q(0), <<Sa>>, <<>>, d, <<>>)>> : d \in Defs}                                    \* every definition
      \cup {<<Ty(i, p, <<>>, D0, dc)>> : i \in QIds, p \in Paths, dc \in DocSets}                 \* id x path x docs
      \cup {<<Ty(Q(0), <<>>, ps, D0, <<>>)>> : ps \in ParamSets}                                  \* parameters
      \cup {<<Ty(Q(0), <<>>, Rep(Prm(Sa, <<Q(1)>>), n), D0, <<>>)>> : n \in InnerLens}
      \cup {<<Ty(Q(0), Rep(Sa, n), <<>>, D0, <<>>)>> : n \in InnerLens}
      \cup {<<Ty(Q(0), <<Rep(97, n)>>, <<>>, D0, Rep(S0, n))>> : n \in InnerLens \cup BigInner}
      \cup {Rep(Ty(Q(1), <<>>, <<>>, D0, <<>>), n) : n \in BigLens \cup InnerLens}                              \* many entries (length classes, caps)
      \cup {<<>>, Rep(Ty(Q(7), <<>>, <<>>, D0, <<>>), 2), Rep(Ty(QMAX, <<Sa>>, <<>>, D0, <<Sa>>), 64),
            <<Ty(Q(1), <<>>, <<>>, D0, <<>>), Ty(Q(0), <<>>, <<>>, [tag |-> "sequence", ty |-> Q(1)], <<>>)>>}   \* vector lengths, non-dense
RegList == SetToSeq(Regs)

\* base registries for the fault machine: together they contain every definition kind
B1 == <<Ty(Q(0), <<Sa, Sa>>, <<Prm(Sa, <<Q(1)>>), Prm(Se, <<>>)>>, [tag |-> "composite", fields |-> <<Fld(<<Sa>>, Q(1), <<Sa>>, <<Sa>>), Fld(<<>>, Q(2), <<>>, <<>>)>>], <<Se>>),
        Ty(Q(1), <<>>, <<>>, [tag |-> "primitive", prim |-> "u32"], <<>>),
        Ty(Q(2), <<>>, <<>>, [tag |-> "sequence", ty |-> Q(1)], <<>>)>>
B2 == <<Ty(Q(0), <<Sa>>, <<>>, [tag |-> "variant", variants |-> <<Var(Sa, <<>>, 0, <<>>), Var(Se, <<Fld(<<>>, Q(1), <<>>, <<>>)>>, 255, <<Sa>>)>>], <<>>),
        Ty(Q(1), <<>>, <<>>, [tag |-> "array", len |-> Q(32), ty |-> Q(2)], <<>>),
        Ty(Q(2), <<>>, <<>>, [tag |-> "primitive", prim |-> "bool"], <<>>)>>
B3 == <<Ty(Q(0), <<>>, <<>>, [tag |-> "tuple", tys |-> <<Q(1), Q(2)>>], <<>>),
        Ty(Q(1), <<>>, <<>>, [tag |-> "compact", ty |-> Q(3)], <<>>),
        Ty(Q(2), <<>>, <<>>, [tag |-> "bitsequence", store |-> Q(3), order |-> Q(4)], <<>>),
        Ty(Q(3), <<>>, <<>>, [tag |-> "primitive", prim |-> "u8"], <<>>),
        Ty(Q(4), <<Sa, Sa>>, <<>>, [tag |-> "composite", fields |-> <<>>], <<>>)>>
B4 == <<Ty(Q(70), <<S64>>, <<>>, [tag |-> "sequence", ty |-> Q(16384)], <<>>)>>       \* multi-byte compacts
B5 == [i \in 1..40 |-> Ty(Q(i - 1), <<>>, <<>>, [tag |-> "primitive", prim |-> Prims[(i % 15) + 1]], <<>>)]   \* many entries
\* strings that are special to SOMEONE's validation: a bare raw prefix, the empty string, a raw identifier, a leading digit,
\* a keyword, non-ASCII text - legal in a decoded registry, in every string position
Sr == <<114, 35>>  Srt == <<114, 35, 116, 121, 112, 101>>  S9 == <<57, 120>>  Skw == <<115, 101, 108, 102>>
B6 == <<Ty(Q(0), <<Sr, S0, Srt, S9, Skw, Se>>, <<Prm(Sr, <<Q(1)>>), Prm(S0, <<>>)>>,
           [tag |-> "composite", fields |-> <<Fld(<<Sr>>, Q(1), <<Sr>>, <<Sr, S0>>), Fld(<<S0>>, Q(1), <<S9>>, <<>>)>>], <<Sr>>),
        Ty(Q(1), <<S0>>, <<>>, [tag |-> "variant", variants |-> <<Var(Sr, <<>>, 0, <<Sr>>), Var(S0, <<Fld(<<Skw>>, Q(0), <<>>, <<>>)>>, 1, <<>>)>>], <<>>)>>
Bases == <<B1, B2, B3, B4, B5, B6>>

\* positions (1-based) of the bytes that start a compact length prefix or an option/enum tag: every
\* byte is a candidate for SetByte anyway; CorruptLength rewrites a prefix with a hostile length
HostileLens == { <<252>>, <<253, 255>>, <<254, 255, 255, 255>>, <<3, 255, 255, 255, 255>>, <<3, 0, 0, 0, 64>>,
                 <<1, 0>>, <<2, 0, 0, 0>>, <<3, 1, 0, 0, 0>>, <<7, 1, 0, 0, 0, 0>>, <<5, 1>>,
                 \* CANONICAL big-integer compacts above u32::MAX (what a wider integer type would accept): 2^32, 2^32+5, 2^40, 2^56, 2^64
                 <<7, 0, 0, 0, 0, 1>>, <<7, 5, 0, 0, 0, 1>>, <<11, 0, 0, 0, 0, 0, 1>>, <<19, 0, 0, 0, 0, 0, 0, 0, 1>>, <<23, 0, 0, 0, 0, 0, 0, 0, 0, 1>> }
ByteVals == {0, 1, 2, 3, 63, 64, 127, 128, 192, 252, 253, 254, 255}
Positions == {p \in 1..Len(bytes) : Stride = 1 \/ p % Stride = nf % Stride \/ p <= 12}

Init == /\ nf = 0 /\ what = <<"base">>
        /\ IF Mode = "layout" THEN \E i \in 1..Len(RegList) : reg = RegList[i] /\ bytes = EncReg(RegList[i])
           ELSE \E i \in 1..Len(Bases) : reg = Bases[i] /\ bytes = EncReg(Bases[i])
Truncate == \E n \in 0..(Len(bytes) - 1) : bytes' = SubSeq(bytes, 1, n) /\ what' = <<"truncate", n>>
FlipBit == \E p \in Positions : \E k \in 0..7 :
             LET bit == 2^k v == bytes[p] nv == IF (v \div bit) % 2 = 1 THEN v - bit ELSE v + bit IN
             bytes' = [bytes EXCEPT ![p] = nv] /\ what' = <<"flip", p, k>>
SetByte == \E p \in Positions : \E v \in ByteVals : v # bytes[p] /\ bytes' = [bytes EXCEPT ![p] = v] /\ what' = <<"set", p, v>>
InsertByte == \E p \in Positions \cup {Len(bytes) + 1} : \E v \in {0, 1, 4, 255} :
                bytes' = SubSeq(bytes, 1, p - 1) \o <<v>> \o SubSeq(bytes, p, Len(bytes)) /\ what' = <<"insert", p, v>>
DeleteByte == \E p \in Positions : bytes' = SubSeq(bytes, 1, p - 1) \o SubSeq(bytes, p + 1, Len(bytes)) /\ what' = <<"delete", p>>
CorruptLength == \E p \in Positions : \E h \in HostileLens :
                bytes' = SubSeq(bytes, 1, p - 1) \o h \o SubSeq(bytes, p + 1, Len(bytes)) /\ what' = <<"length", p, h>>
Next == /\ Mode = "fault" /\ nf < MaxFaults /\ nf' = nf + 1 /\ reg' = reg
        /\ (Truncate \/ FlipBit \/ SetByte \/ InsertByte \/ DeleteByte \/ CorruptLength)
Spec == Init /\ [][Next]_vars

FormatRoundTrip == Mode = "layout" => RoundTrip(reg)
FormatCanonical == Canonical(bytes)
EmitLayout == Mode = "layout" => PrintT(<<"CASE", ToJson([reg |-> reg, bytes |-> bytes])>>)
EmitFault == Mode = "fault" => LET d == DecReg(bytes) IN
   PrintT(<<"CASE", ToJson([bytes |-> bytes, ok |-> d.ok, consumed |-> IF d.ok THEN Consumed(d) ELSE 0, fault |-> what])>>)
View == bytes
=============================================================================
