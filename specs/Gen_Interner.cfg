CONSTANTS V = {"a","b","c","d"} MaxProbe = 5
SPECIFICATION Spec
ACTION_CONSTRAINT Trans
VIEW View
CHECK_DEADLOCK FALSE
