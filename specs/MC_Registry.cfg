CONSTANTS N = 3 MaxKids = 2 MaxHist = 3 WithMany = FALSE PhantomW = 6
SPECIFICATION Spec
INVARIANT C01_WellFormed C02_Faithful C05_Once C05_OnePerIdentity C05_ExactlyReachable
PROPERTY C11_Stable C05_HitIsNoop C02_Terminates
VIEW View
CHECK_DEADLOCK FALSE
