CONSTANTS MaxLen = 0 MaxSegs = 3 MaxTab = 2 Mode = "ops"
SPECIFICATION Spec
INVARIANT SplitJoin
CHECK_DEADLOCK FALSE
