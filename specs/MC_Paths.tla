------------------------------ MODULE MC_Paths ------------------------------
(* Machine 1 ("str"): grows a string one character class at a time running  *)
(*   the DFA alongside; invariant: DFA verdict = declarative verdict; every *)
(*   state prints one conformance case.                                     *)
(* Machine 2 ("ops"): enumerates segment lists x replacement tables and     *)
(*   prints the expected result of every Path operation.                    *)
EXTENDS Paths, Json
CONSTANTS MaxLen, MaxSegs, MaxTab, Mode
VARIABLES str, q, segs, tab
vars == <<str, q, segs, tab>>
\* representative segments: valid plain, valid raw, `r`, keyword-like, and the invalid families
cL == <<"L", 0>> cr == <<"r", 114>> cu == <<"_", 95>> cD == <<"D", 0>> cH == <<"#", 35>> cC == <<":", 58>> cU == <<"U", 0>>
\* (the last one is a segment that CONTAINS the separator between two valid pieces: as an ident it is one invalid
\* segment, never two valid ones)
RepSegs == { <<cL>>, <<cr,cH,cL,cD>>, <<cr>>, <<cu,cD>>, <<cD,cL>>, <<>>, <<cr,cH,cr,cH,cL>>, <<cL,cU>>, <<cL,cC>>, <<cr,cH>>, <<cL,cC,cC,cu,cD>> }
Keys == { <<cL>>, <<cu,cD>>, <<cr>> }
Vals == { <<cL,cL>>, <<cD,cL>>, <<cL>> }
SegLists == UNION {[1..n -> RepSegs] : n \in 0..MaxSegs}
Tabs == UNION {[1..n -> Keys \X Vals] : n \in 0..MaxTab}
Init == IF Mode = "str" THEN str = <<>> /\ q = "Start" /\ segs = <<>> /\ tab = <<>>
        ELSE str = <<>> /\ q = "Start" /\ segs \in SegLists /\ tab \in Tabs
Next == /\ Mode = "str" /\ Len(str) < MaxLen
        /\ \E c \in Classes : str' = Append(str, c) /\ q' = Delta(q, c)
        /\ UNCHANGED <<segs, tab>>
Spec == Init /\ [][Next]_vars
DFAisDecl == Accepting(q) = IsIdentDecl(str) /\ q = RunDFA("Start", str)
SplitJoin == (Mode = "ops" /\ \A i \in 1..Len(segs) : Colon \notin Range(segs[i])) => (segs = <<>> \/ Split(Join(segs)) = segs)
EmitStr == Mode = "str" => PrintT(<<"CASE", ToJson([k |-> "ident", s |-> str, ok |-> Accepting(q)])>>)
ModPath == Join(Namespace(segs))
EmitOps == Mode = "ops" => PrintT(<<"CASE", ToJson([k |-> "ops", segs |-> segs, tab |-> tab,
             from |-> FromSegments(segs),
             new |-> IF segs = <<>> THEN [k |-> "na"] ELSE New(segs[Len(segs)], ModPath),
             newr |-> IF segs = <<>> THEN [k |-> "na"] ELSE NewWithReplace(segs[Len(segs)], ModPath, tab),
             chainfree |-> ChainFree(tab),
             ident |-> Ident(segs), ns |-> Namespace(segs), disp |-> Display(segs)])>>)
=============================================================================
