------------------------------- MODULE Derive -------------------------------
(***************************************************************************)
(* derive/src/{lib,attr,utils,trait_bounds}.rs: what #[derive(TypeInfo)]   *)
(* must produce for a declaration, stated over an ABSTRACT SYNTAX in which  *)
(* every string is structured (a doc line is [sp |-> leading spaces,        *)
(* text |-> ..], a type is an AST), so the specification only concatenates. *)
(*                                                                         *)
(* decl  = [id, kind "struct"|"enum", name, shape, fields, variants,        *)
(*          tparams: Seq([name, skip]), lifetimes: Seq(name),               *)
(*          consts: Seq(name) (const generic parameters: never listed as    *)
(*          type parameters), capture "absent"|"default"|"always"|"never",   *)
(*          replace: Seq(<<search, with>>), docs, mods: Seq(segment)]       *)
(* field = [name: Opt, ty: TExpr, skip, compact, rename: Opt, docs]         *)
(* variant = [name, shape, fields, cindex: Opt, discr: Opt, skip, docs]     *)
(* TExpr = [c |-> constructor, n |-> name/len, a |-> arguments]             *)
(*                                                                         *)
(* Meta(d, env) is the Type the derive must report (C09), children given as *)
(* the TypeIds observed for the DECLARED field types (env.ftids) and the    *)
(* parameter arguments (env.ptids); variant indices follow codec's rule     *)
(* (C03): #[codec(index)] > explicit discriminant > position among the      *)
(* non-skipped variants.                                                    *)
(***************************************************************************)
EXTENDS Naturals, Sequences, FiniteSets, SequencesExt, TLC

RECURSIVE Spaces(_), Toks(_, _), TokList(_, _, _), JoinC(_)
Spaces(n) == IF n = 0 THEN "" ELSE " " \o Spaces(n - 1)
\* a doc comment line `///<sp spaces><text>`: the attribute value is sp spaces + text; ONE leading space is stripped
DocLine(dl) == (IF dl.sp > 0 THEN Spaces(dl.sp - 1) ELSE "") \o dl.text
CaptureMode(d) == IF d.capture = "absent" THEN "default" ELSE d.capture
Captured(d, docs, docsFeature) ==
  IF CaptureMode(d) = "never" THEN <<>>
  ELSE IF CaptureMode(d) = "always" \/ docsFeature THEN [i \in 1..Len(docs) |-> DocLine(docs[i])] ELSE <<>>

JoinC(xs) == IF xs = <<>> THEN "" ELSE Head(xs) \o (IF Len(xs) > 1 THEN "," ELSE "") \o JoinC(Tail(xs))
\* whitespace-free source text of a type expression, every lifetime shown as 'static
TokList(ts, d, sep) == IF ts = <<>> THEN "" ELSE Toks(Head(ts), d) \o (IF Len(ts) > 1 THEN sep ELSE "") \o TokList(Tail(ts), d, sep)
Gen1(name, t, d) == name \o "<" \o Toks(t.a[1], d) \o ">"
Gen2(name, t, d) == name \o "<" \o Toks(t.a[1], d) \o "," \o Toks(t.a[2], d) \o ">"
Toks(t, d) ==
  CASE t.c = "prim" -> t.n [] t.c = "macrot" -> "u8"         \* a `$t:ty` fragment instantiated with u8: named by its tokens, no delimiters
    [] t.c = "string" -> "String" [] t.c = "str" -> "str" [] t.c = "param" -> t.n
    [] t.c = "vec" -> Gen1("Vec", t, d) [] t.c = "opt" -> Gen1("Option", t, d) [] t.c = "box" -> Gen1("Box", t, d)
    [] t.c = "phantom" -> Gen1("PhantomData", t, d)
    [] t.c = "result" -> Gen2("Result", t, d) [] t.c = "btreemap" -> Gen2("BTreeMap", t, d)
    [] t.c = "tuple" -> "(" \o TokList(t.a, d, ",") \o (IF Len(t.a) = 1 THEN ",)" ELSE ")")
    [] t.c = "array" -> "[" \o Toks(t.a[1], d) \o ";" \o ToString(t.n) \o "]"
    [] t.c = "arrayc" -> "[" \o Toks(t.a[1], d) \o ";" \o t.n \o "]"             \* length = a const generic parameter
    [] t.c = "ref" -> "&'static" \o Toks(t.a[1], d)
    [] t.c = "assoc" -> t.n \o "::A"
    [] t.c = "self" -> LET g == [i \in 1..Len(d.lifetimes) |-> "'static"] \o [i \in 1..Len(d.tparams) |-> d.tparams[i].name] \o d.consts
                       IN d.name \o (IF g = <<>> THEN "" ELSE "<" \o JoinC(g) \o ">")

\* replace_segment: the FIRST matching entry wins, applied to every segment of module path + identifier
Rep(d, seg) == LET hits == {i \in 1..Len(d.replace) : d.replace[i][1] = seg} IN
               IF hits = {} THEN seg ELSE d.replace[CHOOSE i \in hits : \A j \in hits : i <= j][2]
\* raw identifiers: the derive stringifies the identifier, `r#type` stays `r#type`
ExpPath(d, modpath) == LET raw == modpath \o <<d.name>> IN [i \in 1..Len(raw) |-> Rep(d, raw[i])]

\* PhantomData, also behind the transparent wrappers (they declare PhantomData's identity)
RECURSIVE IsPhantomTy(_)
IsPhantomTy(t) == t.c = "phantom" \/ (t.c \in {"box", "ref"} /\ IsPhantomTy(t.a[1]))
\* members that are neither #[codec(skip)] nor PhantomData, in declaration order
Kept(fs) == SelectSeq([i \in 1..Len(fs) |-> [f |-> fs[i], k |-> i]], LAMBDA x : ~x.f.skip /\ ~IsPhantomTy(x.f.ty))
ExpFields(d, fs, tids, docsFeature) ==
  LET ks == Kept(fs) IN
  [i \in 1..Len(ks) |-> [name |-> IF ks[i].f.rename # <<>> THEN ks[i].f.rename ELSE ks[i].f.name,
                         ty |-> tids[ks[i].k],
                         tn |-> <<Toks(ks[i].f.ty, d)>>,
                         docs |-> Captured(d, ks[i].f.docs, docsFeature)]]
KeptVariants(d) == SelectSeq([i \in 1..Len(d.variants) |-> [v |-> d.variants[i], k |-> i]], LAMBDA x : ~x.v.skip)
\* codec's index rule (C03): explicit codec(index), else explicit discriminant, else position among kept variants
ExpIndex(d, j) == LET v == KeptVariants(d)[j].v IN
                  IF v.cindex # <<>> THEN v.cindex[1] ELSE IF v.discr # <<>> THEN v.discr[1] ELSE j - 1
\* env = [modpath, docs_feature, ftids: per field group a Seq of TypeIds of the declared (compact-wrapped) types,
\*        ptids: TypeIds of the parameter arguments]
Meta(d, env, withIndex) ==
  [ path |-> ExpPath(d, env.modpath),
    params |-> [i \in 1..Len(d.tparams) |-> [name |-> d.tparams[i].name, ty |-> IF d.tparams[i].skip THEN <<>> ELSE <<env.ptids[i]>>]],
    docs |-> Captured(d, d.docs, env.docs_feature),
    def |-> IF d.kind = "struct"
            THEN [tag |-> "composite", fields |-> IF d.shape = "unit" THEN <<>> ELSE ExpFields(d, d.fields, env.ftids[1], env.docs_feature)]
            ELSE [tag |-> "variant", variants |-> LET kv == KeptVariants(d) IN
                    [j \in 1..Len(kv) |-> [name |-> kv[j].v.name, index |-> IF withIndex THEN ExpIndex(d, j) ELSE 0,
                                           docs |-> Captured(d, kv[j].v.docs, env.docs_feature),
                                           fields |-> IF kv[j].v.shape = "unit" THEN <<>> ELSE ExpFields(d, kv[j].v.fields, env.ftids[kv[j].k], env.docs_feature)]]] ]
\* an observed definition with its variant indices blanked (C09 does not judge indices)
BlankIdx(obs) == IF obs.def.tag = "variant"
                 THEN [obs EXCEPT !.def.variants = [j \in 1..Len(@) |-> [@[j] EXCEPT !.index = 0]]] ELSE obs

(***************************************************************************)
(* Container attributes (derive/src/attr.rs Attributes::from_ast): a        *)
(* sequence of items, possibly split over several #[scale_info(..)]; the    *)
(* derive must reject: an unknown item (also the attribute written without  *)
(* a parenthesised list), a repeated bounds / skip_type_params              *)
(* / capture_docs / crate, an invalid capture_docs value, and a bounds(..)  *)
(* that leaves a non-skipped type parameter unbound.  replace_segment may   *)
(* repeat.  item = [k |-> kind, ...].  A bounds item lists in `ps` the       *)
(* parameters it bounds DIRECTLY (`T: ..`); predicates on other types that  *)
(* merely mention a parameter (`T::A: ..`, `<T as Cfg>::A: ..`,             *)
(* `Vec<T>: ..`; field `other`) bind nothing.                               *)
(***************************************************************************)
Singletons == {"bounds", "skip_type_params", "capture_docs", "crate"}
RECURSIVE CountKind(_, _)
CountKind(items, k) == IF items = <<>> THEN 0 ELSE (IF Head(items).k = k THEN 1 ELSE 0) + CountKind(Tail(items), k)
AttrAccept(items, tparams) ==
  /\ \A i \in 1..Len(items) : items[i].k \in Singletons \cup {"replace_segment"}                  \* no unknown item
  /\ \A k \in Singletons : CountKind(items, k) <= 1                                               \* no duplicate
  /\ \A i \in 1..Len(items) : items[i].k = "capture_docs" => items[i].valid                      \* valid value
  /\ (\E i \in 1..Len(items) : items[i].k = "bounds") =>                                         \* every non-skipped parameter bound
        LET b == items[CHOOSE i \in 1..Len(items) : items[i].k = "bounds"]
            skipped == UNION {items[i].ps : i \in {j \in 1..Len(items) : items[j].k = "skip_type_params"}} IN
        \A p \in tparams : p \in b.ps \/ p \in skipped
=============================================================================
