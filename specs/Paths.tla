------------------------------- MODULE Paths -------------------------------
(***************************************************************************)
(* src/utils.rs is_rust_identifier + src/ty/path.rs.                       *)
(* Strings are sequences of character CLASSES (TLC cannot take a string    *)
(* apart):  "L" an ASCII letter other than r, "r" the letter r, "_" , "D"  *)
(* an ASCII digit, "#", ":", "O" any other ASCII character, "U" any        *)
(* non-ASCII character.  The accepted language is                          *)
(*        (r#)?[A-Za-z_][A-Za-z0-9_]*                                      *)
(* given twice: as a DFA (IsIdent, one transition per character, what an   *)
(* implementation does) and declaratively (IsIdentDecl, what the property  *)
(* says); MC_Paths checks they agree on every string up to the bound.      *)
(***************************************************************************)
EXTENDS Naturals, Sequences, SequencesExt, TLC
(* A character is a pair <<class, code>>: only the class decides validity, the code (the code point  *)
(* in recorded traces, 0 in enumerated cases) keeps different strings different, which matters for   *)
(* the equality test of segment replacement.                                                        *)
Classes == {<<"L", 0>>, <<"r", 114>>, <<"_", 95>>, <<"D", 0>>, <<"#", 35>>, <<":", 58>>, <<"O", 0>>, <<"U", 0>>}
Cls(c) == c[1]
Colon == <<":", 58>>
IsLetter(c) == Cls(c) \in {"L", "r"}
IsHead(c) == IsLetter(c) \/ Cls(c) = "_"
IsTail(c) == IsHead(c) \/ Cls(c) = "D"

Delta(q, c) ==
  CASE q = "Start" -> IF Cls(c) = "r" THEN "R" ELSE IF IsHead(c) THEN "Body" ELSE "Dead"
    [] q = "R"     -> IF Cls(c) = "#" THEN "RHash" ELSE IF IsTail(c) THEN "Body" ELSE "Dead"
    [] q = "RHash" -> IF IsHead(c) THEN "Body" ELSE "Dead"
    [] q = "Body"  -> IF IsTail(c) THEN "Body" ELSE "Dead"
    [] q = "Dead"  -> "Dead"
Accepting(q) == q \in {"R", "Body"}
RECURSIVE RunDFA(_, _)
RunDFA(q, s) == IF s = <<>> THEN q ELSE RunDFA(Delta(q, Head(s)), Tail(s))
IsIdent(s) == Accepting(RunDFA("Start", s))

\* declarative: optional single raw prefix, then head, then tail characters
Plain(s) == s # <<>> /\ IsHead(s[1]) /\ \A i \in 2..Len(s) : IsTail(s[i])
IsIdentDecl(s) == Plain(s) \/ (Len(s) >= 2 /\ Cls(s[1]) = "r" /\ Cls(s[2]) = "#" /\ Plain(SubSeq(s, 3, Len(s))))

(* Path::from_segments *)
FirstBad(segs) == CHOOSE i \in 1..Len(segs) : ~IsIdent(segs[i]) /\ \A j \in 1..(i-1) : IsIdent(segs[j])
FromSegments(segs) ==
  IF segs = <<>> THEN [k |-> "missing"]
  ELSE IF \E i \in 1..Len(segs) : ~IsIdent(segs[i]) THEN [k |-> "invalid", at |-> FirstBad(segs) - 1]
  ELSE [k |-> "ok", segs |-> segs]

(* str::split("::"): leftmost non-overlapping matches *)
RECURSIVE SplitFrom(_, _, _)
SplitFrom(s, i, cur) ==
  IF i > Len(s) THEN <<cur>>
  ELSE IF i < Len(s) /\ Cls(s[i]) = ":" /\ Cls(s[i+1]) = ":" THEN <<cur>> \o SplitFrom(s, i + 2, <<>>)
  ELSE SplitFrom(s, i + 1, Append(cur, s[i]))
Split(s) == SplitFrom(s, 1, <<>>)

(* Path::new / new_with_replace: panic exactly when from_segments errs *)
New(ident, modpath) == FromSegments(Split(modpath) \o <<ident>>)
\* first matching entry of the table wins; applied to every segment incl. the ident, after splitting
Replace1(seg, tab) == IF \E k \in 1..Len(tab) : tab[k][1] = seg
                      THEN tab[CHOOSE k \in 1..Len(tab) : tab[k][1] = seg /\ \A j \in 1..(k-1) : tab[j][1] # seg][2]
                      ELSE seg
NewWithReplace(ident, modpath, tab) ==
  LET segs == Split(modpath) \o <<ident>> IN FromSegments([i \in 1..Len(segs) |-> Replace1(segs[i], tab)])

\* C18 does not say HOW replacement tables are applied (C09 does: the first matching entry, once).  A table is
\* chain-free when no entry's replacement text is a later entry's search text; only then do all reasonable
\* application orders agree, and only then is the exact result part of C18's acceptor.
ChainFree(tab) == \A i, j \in 1..Len(tab) : i < j => tab[i][2] # tab[j][1]
\* what C18 itself demands of a successful construction, whatever the table semantics
ValidPath(segs, n) == Len(segs) = n /\ \A i \in 1..Len(segs) : IsIdent(segs[i])

(* accessors of a constructed path *)
Ident(segs) == IF segs = <<>> THEN <<>> ELSE <<segs[Len(segs)]>>          \* Option
Namespace(segs) == IF segs = <<>> THEN <<>> ELSE SubSeq(segs, 1, Len(segs) - 1)
RECURSIVE Join(_)
Join(segs) == IF segs = <<>> THEN <<>> ELSE IF Len(segs) = 1 THEN segs[1] ELSE segs[1] \o <<Colon, Colon>> \o Join(Tail(segs))
Display(segs) == Join(segs)
=============================================================================
