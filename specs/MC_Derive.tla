----------------------------- MODULE MC_Derive -----------------------------
(* The coverage plan for derive programs: every declaration shape x every   *)
(* set of at most MaxFeatures grammar features (pairwise by default); the   *)
(* plan is concretised into declarations by gen/derive.py.  Also checks the *)
(* attribute automaton on every sequence of <= 3 container items (C20).     *)
EXTENDS Derive, Json
CONSTANTS MaxFeatures, Mode
Shapes == {"struct_named", "struct_unnamed", "struct_unit", "enum"}
Features == {"generic", "skipped_param", "lifetime", "docs", "rename", "skip_field", "compact", "phantom", "selfref", "nested",
             "raw_ident", "const_generic", "macro_ty", "phantom_arg", "doc_attr_form", "combined_attrs", "capture_always", "capture_never", "capture_default", "modules", "replace", "skip_variant", "codec_index", "discriminant", "encoded_as", "crate_path", "rev_attrs", "foreign_attrs"}
Excl(S) == Cardinality(S \cap {"capture_always", "capture_never", "capture_default"}) <= 1
Plans == {<<sh, S>> : sh \in Shapes, S \in {T \in SUBSET Features : Cardinality(T) <= MaxFeatures /\ Excl(T)}}
\* container attribute items (C20 derive half)
\* two type parameters T (declared first) and U, so that "every non-skipped parameter is bound" has an order to get wrong
Items == { [k |-> "bounds", ps |-> {"T", "U"}], [k |-> "bounds", ps |-> {"T"}], [k |-> "bounds", ps |-> {"U"}], [k |-> "bounds", ps |-> {}],
           [k |-> "skip_type_params", ps |-> {"T"}], [k |-> "skip_type_params", ps |-> {"U"}],
           \* a skip list as LONG as the parameter list that does not name every parameter: a name that is no parameter ("X"), a
           \* parameter named twice ("TT" is written T): legal lists, and they skip only what they name
           [k |-> "skip_type_params", ps |-> {"T", "X"}], [k |-> "skip_type_params", ps |-> {"T", "TT"}],
           [k |-> "capture_docs", valid |-> TRUE, val |-> "default"], [k |-> "capture_docs", valid |-> TRUE, val |-> "Always"],
           [k |-> "capture_docs", valid |-> TRUE, val |-> "never"], [k |-> "capture_docs", valid |-> FALSE, val |-> "sometimes"], [k |-> "crate"],
           [k |-> "replace_segment"], [k |-> "unknown"],
           \* the helper attribute in a form that is no parenthesised list: #[scale_info] and #[scale_info = ".."] (never accepted:
           \* what is written in them is not one of the known items)
           [k |-> "bare"], [k |-> "namevalue"] }
\* bounds(..) whose predicates mention T without bounding it: T stays unbound
IndirectItems == { [k |-> "bounds", ps |-> {}, other |-> <<"assoc">>], [k |-> "bounds", ps |-> {"U"}, other |-> <<"assoc">>],
                   [k |-> "bounds", ps |-> {"U"}, other |-> <<"qassoc", "vec">>], [k |-> "bounds", ps |-> {"U"}, other |-> <<"arr", "lifetime">>], [k |-> "bounds", ps |-> {"T", "U"}, other |-> <<"assoc">>] }
ItemSeqs == UNION {[1..n -> Items] : n \in 0..3} \cup UNION {[1..n -> Items \cup IndirectItems] : n \in 1..2}
VARIABLE x
Init == IF Mode = "plans" THEN x \in Plans ELSE x \in ItemSeqs
Next == UNCHANGED x
Spec == Init /\ [][Next]_x
EmitPlan == Mode = "plans" => PrintT(<<"PLAN", ToJson([shape |-> x[1], feats |-> SetToSeq(x[2])])>>)
EmitAttr == Mode = "attrs" => PrintT(<<"ATTR", ToJson([items |-> [i \in 1..Len(x) |-> [k |-> x[i].k, ps |-> IF "ps" \in DOMAIN x[i] THEN SetToSeq(x[i].ps) ELSE <<>>, other |-> IF "other" \in DOMAIN x[i] THEN x[i].other ELSE <<>>,
                                                                              val |-> IF "val" \in DOMAIN x[i] THEN x[i].val ELSE ""]], accept |-> AttrAccept(x, {"T", "U"})])>>)
=============================================================================
