----------------------------- MODULE Trace_Wire -----------------------------
(***************************************************************************)
(* Implementation -> specification for the SCALE form of PortableRegistry. *)
(* Events: Encode(reg, bytes), Decode(bytes, res) with res = ok(reg,       *)
(* consumed) | err, Untrusted(bytes, ok, reg, consumed) (a decode of       *)
(* hostile input that succeeded).  One acceptor per property:              *)
(*  C06  the bytes ARE the published layout (EncReg) and the library's     *)
(*       decoder agrees with the independent one (DecReg)                  *)
(*  C07  stated on the history alone: encode is a function, it is          *)
(*       injective, decode(encode(r) ++ junk) = (r, |encode(r)|)           *)
(*  C14  a successful decode of untrusted bytes re-encodes (by the library) *)
(*       to exactly the consumed prefix; whether those bytes are the       *)
(*       published layout is C06's question                                *)
(***************************************************************************)
EXTENDS Wire, Json, IOUtils
CONSTANT Check
Rec == ndJsonDeserialize(IOEnv.TRACE)
VARIABLES l, seen, last
vars == <<l, seen, last>>
Init == l = 1 /\ seen = {} /\ last = <<>>
ResOK(e) == "ok" \in DOMAIN e.res
AcceptEncode(e) ==
  CASE Check = "C06" -> EncReg(e.reg) = e.bytes
    [] Check = "C07" -> \A p \in seen : (p[1] = e.reg) <=> (p[2] = e.bytes)
    [] OTHER -> TRUE
AcceptDecode(e) ==
  CASE Check = "C06" -> LET d == DecReg(e.bytes) IN
                        IF ResOK(e) THEN d.ok /\ d.v = e.res.ok[1].reg /\ Consumed(d) = e.res.ok[1].consumed ELSE ~d.ok
    [] Check = "C07" -> (last # <<>> /\ IsPrefix(last[2], e.bytes)) =>
                          /\ ResOK(e) /\ e.res.ok[1].reg = last[1] /\ e.res.ok[1].consumed = Len(last[2])
    [] OTHER -> TRUE
AcceptUntrusted(e) ==
  CASE Check = "C14" -> e.ok => e.reenc = SubSeq(e.bytes, 1, e.consumed)     \* the library's own re-encoding
    [] Check = "C06" -> LET d == DecReg(e.bytes) IN d.ok = e.ok /\ (e.ok => d.v = e.reg /\ Consumed(d) = e.consumed)
    [] OTHER -> TRUE
Next == /\ l <= Len(Rec)
        /\ LET e == Rec[l] IN
           CASE e.ev = "Encode" -> AcceptEncode(e) /\ seen' = seen \cup {<<e.reg, e.bytes>>} /\ last' = <<e.reg, e.bytes>>
             [] e.ev = "Decode" -> AcceptDecode(e) /\ UNCHANGED <<seen, last>>
             [] e.ev = "Untrusted" -> AcceptUntrusted(e) /\ UNCHANGED <<seen, last>>
             [] e.ev = "Reset" -> seen' = {} /\ last' = <<>>
        /\ l' = l + 1
Spec == Init /\ [][Next]_vars
Track == TLCSet(1, l)
Accepted == IF TLCGet(1) = Len(Rec) + 1 THEN TRUE
            ELSE Print(<<"REJECTED at event", TLCGet(1), Rec[TLCGet(1)].ev>>, FALSE)
=============================================================================
