----------------------------- MODULE MC_Builder -----------------------------
(***************************************************************************)
(* PortableRegistryBuilder as a producer of registries (C01, second        *)
(* producer).  Histories of register_type over bodies that MENTION ids:    *)
(*   prim            no reference                                          *)
(*   seq(i)          a sequence of type i, for any i in 0..MaxRef (the     *)
(*                   library cannot stop a caller from mentioning an id    *)
(*                   nobody assigned)                                      *)
(*   selfref         a composite whose field refers to next_type_id() as   *)
(*                   announced just before the registration                *)
(* finish() is always DENSE; it is CLOSED exactly for disciplined          *)
(* histories: every id a registered body mentions was returned by, or      *)
(* announced by next_type_id of, this builder and is assigned by the time  *)
(* of finish.                                                              *)
(***************************************************************************)
EXTENDS SITypes, TLC, Json
CONSTANTS MaxOps, MaxRef
VARIABLES vec, ops
Prim == [path |-> <<>>, params |-> <<>>, def |-> [tag |-> "primitive", prim |-> "u8"], docs |-> <<>>]
SeqTy(i) == [path |-> <<>>, params |-> <<>>, def |-> [tag |-> "sequence", ty |-> i], docs |-> <<>>]
SelfRef(n) == [path |-> <<"m", "S">>, params |-> <<>>, def |-> [tag |-> "composite", fields |-> <<[name |-> <<"next">>, ty |-> n, tn |-> <<>>, docs |-> <<>>]>>], docs |-> <<>>]
Known(b) == \E i \in 1..Len(vec) : vec[i] = b
Register(b, op) == /\ Len(ops) < MaxOps /\ ops' = Append(ops, op)
                   /\ vec' = IF Known(b) THEN vec ELSE Append(vec, b)
Init == vec = <<>> /\ ops = <<>>
Next == \/ Register(Prim, [k |-> "prim"])
        \/ \E i \in 0..MaxRef : Register(SeqTy(i), [k |-> "seq", i |-> i])
        \/ Register(SelfRef(Len(vec)), [k |-> "selfref"])
Spec == Init /\ [][Next]_<<vec, ops>>
Finish == [p \in 1..Len(vec) |-> WithId(vec[p], p - 1)]
Disciplined == \A p \in 1..Len(vec) : \A q \in Range(Refs(vec[p])) : q < Len(vec)
C01_BuilderDense == Dense(Finish) /\ ResolveOK(Finish)
C01_BuilderClosedIffDisciplined == Closed(Finish) <=> Disciplined
Emit == PrintT(<<"CASE", ToJson([ops |-> ops, finish |-> Finish, disciplined |-> Disciplined])>>)
=============================================================================
