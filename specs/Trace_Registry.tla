--------------------------- MODULE Trace_Registry ---------------------------
(***************************************************************************)
(* Implementation -> specification for src/registry.rs.                    *)
(*                                                                         *)
(* The trace is a concatenation of segments: a `Universe` event (the       *)
(* compile-time type graph the harness loaded into its Node<I> types),     *)
(* then one event per public call at its return (Register, RegisterMany,   *)
(* MapFields) carrying arguments, result and the registry state observed   *)
(* through Registry::types(); `Eval` events logged from inside the user    *)
(* type_info() callbacks; `Final` (PortableRegistry::from + resolve        *)
(* probes); `Replay` and `Perm` (re-executions).                           *)
(*                                                                         *)
(* The model is driven by the logged ARGUMENTS only.  What is asserted on  *)
(* the logged RESULTS depends on `Check` -- one acceptor per property      *)
(* (DESIGN.md 3.5), so that an alarm is attributable:                      *)
(*   C02  every returned id resolves to the image of the identity's own    *)
(*        type_info(), references resolving to the referenced definitions  *)
(*   REFINE  (diagnostic) ids and whole state equal the model's            *)
(*   C01  every observed registry is dense and closed; resolve is by label *)
(*   C05  hits are no-ops, ids partition spellings exactly by identity,    *)
(*        one entry per reachable identity, type_info() evaluated only as  *)
(*        part of a miss: the Eval events in front of a call are exactly   *)
(*        the identities that call met for the first time, each once, in   *)
(*        any order (for the other checks the runner strips them)          *)
(*   C11  each state extends the previous one; replays are byte-identical; *)
(*        permuted root orders give isomorphic registries                  *)
(***************************************************************************)
EXTENDS Registry, Json, IOUtils
CONSTANT Check
Rec == ndJsonDeserialize(IOEnv.TRACE)
VARIABLES l,      \* next event
          prev,   \* previously observed registry state in this segment
          seen    \* set of <<identity, returned id>> observed in this segment
tvars == <<info, table, types, stack, evals, ret, l, prev, seen>>

InfoOf(e) == [t \in 0..(Len(e.info) - 1) |-> e.info[t + 1]]
Ev(name) == l <= Len(Rec) /\ Rec[l].ev = name
CallEvs == {"Register", "RegisterMany", "MapFields"}

Load(u) == /\ info' = u /\ table' = <<>> /\ types' = <<>> /\ stack' = <<>>
           /\ evals' = [t \in DOMAIN u |-> 0] /\ ret' = NoRet /\ prev' = <<>> /\ seen' = {}
TInit == /\ Rec[1].ev = "Universe" /\ l = 2 /\ RInit(InfoOf(Rec[1])) /\ prev = <<>> /\ seen = {}
TReset == /\ Quiescent /\ ret = NoRet /\ Ev("Universe") /\ Load(InfoOf(Rec[l])) /\ l' = l + 1

\* the call event that the next return will consume, found by peeking past callback events
HasPending == \E j \in l..Len(Rec) : Rec[j].ev \in CallEvs /\ \A k \in l..(j-1) : Rec[k].ev = "Eval"
Pending == CHOOSE j \in l..Len(Rec) : Rec[j].ev \in CallEvs /\ \A k \in l..(j-1) : Rec[k].ev = "Eval"

\* Eval callback events stay in front of the call event they belong to and are judged at its return
\* (EvalsOK): C05 says how OFTEN a definition is evaluated, not in which order members are visited
ConsumeEval(t, miss) == l' = l
EvalsOK(j) == LET evt == [k \in 1..(j - l) |-> Rec[l + k - 1].t]
                  new == {table[i] : i \in (Len(prev) + 1)..Len(table)} \ {PhantomId} IN
              /\ \A a, b \in 1..Len(evt) : evt[a] = evt[b] => a = b          \* no definition evaluated twice
              /\ {evt[k] : k \in 1..Len(evt)} = new                           \* exactly the identities met for the first time

TBegin == /\ Quiescent /\ ret = NoRet /\ HasPending
          /\ LET e == Rec[Pending] IN
             CASE e.ev = "Register" ->
                    /\ Intern(e.sp, <<>>) /\ ConsumeEval(Ident(e.sp), ~InTable(Ident(e.sp)))
                    /\ UNCHANGED <<info, types>>
               [] e.ev = "RegisterMany" -> CallRegisterMany(e.sps) /\ l' = l
               [] e.ev = "MapFields" -> CallMapFields(e.items) /\ l' = l
          /\ UNCHANGED <<prev, seen>>
TChild == /\ Child
          /\ LET t == Ident(Top.kids[Top.next]) IN ConsumeEval(t, ~InTable(t))
          /\ UNCHANGED <<prev, seen>>
TComplete == Complete /\ UNCHANGED <<l, prev, seen>>

Min2(a, b) == IF a < b THEN a ELSE b
\* <<spelling, returned id>> pairs of a call event
Pairs(e) == CASE e.ev = "Register" -> <<<<e.sp, e.ret>>>>
              [] e.ev = "RegisterMany" -> [k \in 1..Len(e.sps) |-> <<e.sps[k], e.ret[k]>>]
              [] e.ev = "MapFields" -> [k \in 1..Len(e.items) |-> <<e.items[k].ty, e.ret[k].ty>>]
\* register_types / map_into_portable answer with one id per argument, in order: a result of another length pairs with
\* nothing, so no acceptor that speaks about returned ids can accept it (C01 speaks about the registry only)
RetShapeOK(e) == CASE e.ev = "RegisterMany" -> Len(e.ret) = Len(e.sps)
                   [] e.ev = "MapFields" -> Len(e.ret) = Len(e.items)
                   [] OTHER -> TRUE
NewSeen(e) == IF RetShapeOK(e) THEN seen \cup {<<Ident(Pairs(e)[k][1]), Pairs(e)[k][2]>> : k \in 1..Len(Pairs(e))} ELSE seen
Partition(S) == \A p, q \in S : (p[1] = q[1]) <=> (p[2] = q[2])

\* C02, relationally: from the <<identity, returned id>> pairs, each id resolves to an entry identical to
\* that identity's type_info() up to references, and references resolve to the referenced definitions
Blank(b) == MapRefs(b, LAMBDA x : 0)
RECURSIVE GrowImg(_, _)
GrowImg(M, snap) ==
  LET nxt == M \cup UNION { LET a == Refs(snap[p[2]+1]) b == Refs(info[p[1]]) IN
                               {<<Ident(b[k]), a[k]>> : k \in 1..Min2(Len(a), Len(b))} : p \in {x \in M : x[2] < Len(snap)} }
  IN IF nxt = M THEN M ELSE GrowImg(nxt, snap)
ImageOK(snap, roots) == \A p \in GrowImg(roots, snap) :
   /\ p[2] < Len(snap)
   /\ Blank(Body(snap[p[2]+1])) = Blank(info[p[1]])
AcceptCall(e) ==
  CASE Check = "C02" -> ImageOK(e.types, NewSeen(e))
    [] Check = "REFINE" -> /\ e.ret = ret[2] /\ e.types = Snapshot
    [] Check = "C01" -> WellFormed(e.types) /\ ResolveOK(e.types)
    [] Check = "C05" -> /\ Len(e.types) = Len(prev) => e.types = prev       \* nothing new: nothing changed
                        /\ Partition(NewSeen(e))                           \* aliases share, distinct never merge
                        /\ Len(e.types) = Len(table)                       \* one entry per reachable identity
                        /\ C05_Once
    [] Check = "C11" -> IsPrefix(prev, e.types)
    [] Check = "X02" -> TRUE
TReturn == /\ Quiescent /\ ret # NoRet /\ HasPending
           /\ (Check # "C01" => RetShapeOK(Rec[Pending]))
           /\ LET j == Pending IN
              /\ IF Check = "C05" THEN EvalsOK(j) ELSE j = l
              /\ AcceptCall(Rec[j])
              /\ ret' = NoRet /\ prev' = Rec[j].types /\ seen' = NewSeen(Rec[j]) /\ l' = j + 1
           /\ UNCHANGED <<info, table, types, stack, evals>>

ResolveProbesOK(e) == \A k \in 1..Len(e.res) :
   LET i == e.res[k][1] got == e.res[k][2] IN
     IF i < Len(e.types) THEN got = <<Body(e.types[i+1])>> /\ e.types[i+1].id = i ELSE got = <<>>
AcceptFinal(e) ==
  CASE Check = "C02" -> ImageOK(e.types, seen)
    [] Check = "REFINE" -> e.types = Snapshot
    [] Check = "C01" -> WellFormed(e.types) /\ ResolveProbesOK(e)
    [] Check = "C05" -> Len(e.types) = Len(table)
    [] Check = "C11" -> e.types = prev
    [] Check = "X02" -> TRUE
TFinal == /\ Quiescent /\ ret = NoRet /\ Ev("Final") /\ AcceptFinal(Rec[l])
          /\ l' = l + 1 /\ UNCHANGED <<info, table, types, stack, evals, ret, prev, seen>>

\* --- X02 (extension, not a listed property): Registry => Builder.  Feeding the entries of a produced registry, in
\* order, to the run-time builder interns them BY VALUE: the builder's table is the sequence of first occurrences of
\* the entry bodies, each entry gets the index of the first occurrence of its body, and finish() labels by position.
\* The round trip is the identity exactly when no two entries have equal bodies - which is why a registry keyed by
\* type identity must NOT be converted through the builder (two identities may have equal definitions).
FirstOcc(bs, k) == CHOOSE i \in 1..k : bs[i] = bs[k] /\ \A j \in 1..(i - 1) : bs[j] # bs[k]
RebuildOK(e) ==
  LET bs == [k \in 1..Len(e.types) |-> Body(e.types[k])]
      firsts == SelectSeq([k \in 1..Len(bs) |-> k], LAMBDA k : FirstOcc(bs, k) = k)
      PosOf(k) == CHOOSE p \in 1..Len(firsts) : firsts[p] = FirstOcc(bs, k) IN
  /\ e.rebuilt = [p \in 1..Len(firsts) |-> WithId(bs[firsts[p]], p - 1)]
  /\ e.ids = [k \in 1..Len(bs) |-> PosOf(k) - 1]
  /\ ((\A i, j \in 1..Len(bs) : bs[i] = bs[j] => i = j) /\ WellFormed(e.types)) => e.rebuilt = e.types
\* --- re-executions (C11 ii, iii) ---
Iso(e) == RegIso(e.types1, e.types2,
                 {<<e.roots1[p[1]][2], e.roots2[p[2]][2]>> : p \in {q \in (1..Len(e.roots1)) \X (1..Len(e.roots2)) : e.roots1[q[1]][1] = e.roots2[q[2]][1]}})
TReexec == /\ Quiescent /\ ret = NoRet
           /\ \/ Ev("Replay") /\ (Check = "C11" => Rec[l].a = Rec[l].b)
              \/ Ev("Perm") /\ (Check = "C11" => Iso(Rec[l]))
              \/ Ev("Panic") /\ Check # "C02"          \* registration must terminate normally: C02's statement
              \/ Ev("Rebuild") /\ (Check = "X02" => RebuildOK(Rec[l]))
              \/ Ev("Decoded") /\ (Check = "C01" => ("ok" \in DOMAIN Rec[l].res /\ WellFormed(Rec[l].res.ok[1]) /\ ResolveOK(Rec[l].res.ok[1])))
           /\ l' = l + 1 /\ UNCHANGED <<info, table, types, stack, evals, ret, prev, seen>>

TNext == TReset \/ TBegin \/ TChild \/ TComplete \/ TReturn \/ TFinal \/ TReexec
TSpec == TInit /\ [][TNext]_tvars
Track == TLCSet(1, l)
Accepted == IF TLCGet(1) = Len(Rec) + 1 THEN TRUE
            ELSE Print(<<"REJECTED at event", TLCGet(1), Rec[TLCGet(1)].ev>>, FALSE)
\* the model's own invariants, evaluated along every validated execution
ModelInv == C02_Faithful /\ C05_Once /\ C05_OnePerIdentity /\ C01_WellFormed
=============================================================================
