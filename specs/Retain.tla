------------------------------- MODULE Retain -------------------------------
(***************************************************************************)
(* PortableRegistry::retain (src/portable.rs), step for step.              *)
(*                                                                         *)
(*   Driver    the `for id in 0..len` loop: ask the filter, enter if kept  *)
(*   Enter     retain_type(id): hit  -> return the recorded new id         *)
(*                              miss -> reserve a slot in the new vector,   *)
(*                                      record old->new BEFORE recursing,   *)
(*                                      take the entry out of the old       *)
(*                                      vector leaving a placeholder, push  *)
(*   Visit     the top frame recurses into its next reference (type        *)
(*             parameters with a type first, then the definition)          *)
(*   Exit      all references rewritten: write the entry into its slot,    *)
(*             return the new id to the caller                             *)
(*   Finish    loop exhausted: the new vector replaces the old one         *)
(***************************************************************************)
EXTENDS SITypes, Integers, TLC
VARIABLES orig,    \* the registry retain was called on (never changes)
          keep,    \* the ids the filter accepts
          old,     \* self.types while being hollowed out
          newT,    \* new_types
          rmap,    \* retained_mappings: old id -> new id
          stack, cursor, pc,
          phread   \* ghost: some step read a placeholder
tvars == <<orig, keep, old, newT, rmap, stack, cursor, pc, phread>>

PH == [id |-> -1, path |-> <<>>, params |-> <<>>, def |-> [tag |-> "primitive", prim |-> "bool"], docs |-> <<>>]

TInitWith(r, k) == /\ orig = r /\ keep = k /\ old = r /\ newT = <<>> /\ rmap = <<>>
                   /\ stack = <<>> /\ cursor = 0 /\ pc = "loop" /\ phread = FALSE

Deliver(st, id) == IF st = <<>> THEN st
                   ELSE [st EXCEPT ![Len(st)] = [@ EXCEPT !.acc = Append(@, id), !.next = @ + 1]]

Enter(i, st) ==
  IF i \in DOMAIN rmap
  THEN /\ stack' = Deliver(st, rmap[i])
       /\ UNCHANGED <<old, newT, rmap, phread>>
  ELSE LET newId == Len(newT)
           ty == [old[i+1] EXCEPT !.id = newId] IN
       /\ newT' = Append(newT, PH)
       /\ rmap' = (i :> newId) @@ rmap
       /\ old' = [old EXCEPT ![i+1] = PH]
       /\ phread' = (phread \/ old[i+1] = PH)
       /\ stack' = Append(st, [ty |-> ty, new |-> newId, kids |-> Refs(ty), next |-> 1, acc |-> <<>>])

Driver == /\ pc = "loop" /\ stack = <<>> /\ cursor < Len(orig)
          /\ cursor' = cursor + 1
          /\ IF cursor \in keep THEN Enter(cursor, <<>>) ELSE UNCHANGED <<old, newT, rmap, stack, phread>>
          /\ UNCHANGED <<orig, keep, pc>>
Top == stack[Len(stack)]
Visit == /\ stack # <<>> /\ Top.next <= Len(Top.kids)
         /\ Enter(Top.kids[Top.next], stack)
         /\ UNCHANGED <<orig, keep, cursor, pc>>
Exit == /\ stack # <<>> /\ Top.next > Len(Top.kids)
        /\ newT' = [newT EXCEPT ![Top.new + 1] = SetRefs(Top.ty, Top.acc)]
        /\ stack' = Deliver(SubSeq(stack, 1, Len(stack) - 1), Top.new)
        /\ UNCHANGED <<orig, keep, old, rmap, cursor, pc, phread>>
Finish == /\ pc = "loop" /\ stack = <<>> /\ cursor = Len(orig) /\ pc' = "done"
          /\ UNCHANGED <<orig, keep, old, newT, rmap, stack, cursor, phread>>
RNext == Driver \/ Visit \/ Exit \/ Finish

(***************************************************************************)
(* C10: the statement.                                                     *)
(***************************************************************************)
Done == pc = "done"
KeptRoots == keep \cap (0..(Len(orig) - 1))
Expected(r, k, m) ==       \* what the result must be, given the map
  /\ DOMAIN m = ReachIds(r, k)
  /\ \A i, j \in DOMAIN m : m[i] = m[j] => i = j
DoneOK == Done =>
  /\ WellFormed(newT)
  /\ Expected(orig, KeptRoots, rmap)
  /\ {rmap[i] : i \in DOMAIN rmap} = 0..(Len(newT) - 1)
  /\ \A i \in DOMAIN rmap : newT[rmap[i] + 1] = [MapRefs(orig[i+1], LAMBDA q : rmap[q]) EXCEPT !.id = rmap[i]]
PlaceholderNeverRead == ~phread
SlotsFilled == Done => \A p \in 1..Len(newT) : newT[p] # PH \/ orig[(CHOOSE i \in DOMAIN rmap : rmap[i] = p - 1) + 1] = PH
Terminates == <>Done
=============================================================================
