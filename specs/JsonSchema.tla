----------------------------- MODULE JsonSchema -----------------------------
(***************************************************************************)
(* Semantics of the JSON Schema (draft-07) subset that schemars 0.8 emits: *)
(* type (string or array), properties, required, additionalProperties:     *)
(* false, items, $ref to #/definitions/*, allOf / anyOf / oneOf, enum,     *)
(* minimum / maximum (non-negative integer bounds); annotations ($schema, title, description, format, default)   *)
(* are ignored.  An unknown keyword trips an Assert (tool error, never a   *)
(* verdict).                                                               *)
(* Documents use the JV form of JsonForm (strings as bytes); in the schema *)
(* tree, strings are TLA+ strings except inside `enum`, where they are in  *)
(* document form so that they can be compared with document values.        *)
(***************************************************************************)
EXTENDS Naturals, Sequences, FiniteSets, TLC
SHas(j, key) == \E i \in 1..Len(j.k) : j.k[i] = key
SGet(j, key) == j.v[CHOOSE i \in 1..Len(j.k) : j.k[i] = key]
SKeys(j) == {j.k[i] : i \in 1..Len(j.k)}
Known == {"$schema", "title", "description", "type", "required", "properties", "items", "definitions", "$ref",
          "allOf", "anyOf", "oneOf", "enum", "format", "minimum", "maximum", "additionalProperties", "default"}
TypeNames(d) == CASE d.t = "o" -> {"object"} [] d.t = "a" -> {"array"} [] d.t = "s" -> {"string"}
                  [] d.t = "b" -> {"boolean"} [] d.t = "z" -> {"null"}
                  [] d.t = "n" -> IF d.int THEN {"integer", "number"} ELSE {"number"}
DefOf(root, ref) == LET defs == SGet(root, "definitions") IN
                    defs.v[CHOOSE i \in 1..Len(defs.k) : "#/definitions/" \o defs.k[i] = ref]
\* numbers are [neg, hi, lo] with value (hi * 65536 + lo): compared without leaving 32-bit arithmetic
IsZero(x) == x.hi = 0 /\ x.lo = 0
GEq(x, y) ==     \* x >= y
  IF x.neg /\ ~IsZero(x) THEN (y.neg /\ ~IsZero(y)) /\ (y.hi > x.hi \/ (y.hi = x.hi /\ y.lo >= x.lo))
  ELSE (y.neg \/ IsZero(y)) \/ (x.hi > y.hi \/ (x.hi = y.hi /\ x.lo >= y.lo))
RECURSIVE Validates(_, _, _)
Validates(root, s, d) ==
  /\ Assert(SKeys(s) \subseteq Known, <<"unknown schema keyword", SKeys(s) \ Known>>)
  /\ SHas(s, "$ref") => Validates(root, DefOf(root, SGet(s, "$ref").v), d)
  /\ SHas(s, "type") =>
        LET ty == SGet(s, "type") IN
        IF ty.t = "s" THEN ty.v \in TypeNames(d) ELSE \E i \in 1..Len(ty.v) : ty.v[i].v \in TypeNames(d)
  /\ SHas(s, "enum") => \E i \in 1..Len(SGet(s, "enum").v) : SGet(s, "enum").v[i] = d
  /\ SHas(s, "minimum") => Assert(SGet(s, "minimum").int /\ ~SGet(s, "minimum").neg, "minimum not a non-negative integer")
  /\ SHas(s, "minimum") => (d.t = "n" => Assert(d.int, "bound on a non-integer document number") /\ GEq(d, SGet(s, "minimum")))
  /\ SHas(s, "maximum") => Assert(SGet(s, "maximum").int /\ ~SGet(s, "maximum").neg, "maximum not a non-negative integer")
  /\ SHas(s, "maximum") => (d.t = "n" => Assert(d.int, "bound on a non-integer document number") /\ GEq(SGet(s, "maximum"), d))
  /\ SHas(s, "allOf") => \A i \in 1..Len(SGet(s, "allOf").v) : Validates(root, SGet(s, "allOf").v[i], d)
  /\ SHas(s, "anyOf") => \E i \in 1..Len(SGet(s, "anyOf").v) : Validates(root, SGet(s, "anyOf").v[i], d)
  /\ SHas(s, "oneOf") => Cardinality({i \in 1..Len(SGet(s, "oneOf").v) : Validates(root, SGet(s, "oneOf").v[i], d)}) = 1
  /\ (d.t = "o" /\ SHas(s, "required")) => \A i \in 1..Len(SGet(s, "required").v) : SHas(d, SGet(s, "required").v[i].v)
  /\ (d.t = "o" /\ SHas(s, "properties")) =>
        \A i \in 1..Len(d.k) : SHas(SGet(s, "properties"), d.k[i]) => Validates(root, SGet(SGet(s, "properties"), d.k[i]), d.v[i])
  /\ (d.t = "o" /\ SHas(s, "additionalProperties")) =>
        (SGet(s, "additionalProperties") = [t |-> "b", v |-> FALSE] =>
            \A i \in 1..Len(d.k) : SHas(s, "properties") /\ SHas(SGet(s, "properties"), d.k[i]))
  /\ (d.t = "a" /\ SHas(s, "items")) => \A i \in 1..Len(d.v) : Validates(root, SGet(s, "items"), d.v[i])
=============================================================================
