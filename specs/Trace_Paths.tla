---------------------------- MODULE Trace_Paths ----------------------------
(* Implementation -> specification for src/ty/path.rs: every recorded call  *)
(* (arguments as character-class sequences, result) must be what the Paths  *)
(* operators compute.  Path::new* panic where from_segments errs.           *)
EXTENDS Paths, Json, IOUtils
Rec == ndJsonDeserialize(IOEnv.TRACE)
VARIABLE l
Init == l = 1
AsNew(r) == IF r.k = "ok" THEN r ELSE [k |-> "panic"]
Matches(e) ==
  CASE e.ev = "FromSegments" -> e.res = FromSegments(e.segs)
    [] e.ev = "New" -> e.res = AsNew(New(e.ident, e.mp))
    [] e.ev = "NewWithReplace" -> /\ ChainFree(e.tab) => e.res = AsNew(NewWithReplace(e.ident, e.mp, e.tab))
                                  /\ e.res.k = "ok" => ValidPath(e.res.segs, Len(Split(e.mp)) + 1)
    [] e.ev = "Access" -> e.ident = Ident(e.segs) /\ e.ns = Namespace(e.segs) /\ e.disp = Display(e.segs)
Next == l <= Len(Rec) /\ Matches(Rec[l]) /\ l' = l + 1
Spec == Init /\ [][Next]_l
Track == TLCSet(1, l)
Accepted == IF TLCGet(1) = Len(Rec) + 1 THEN TRUE
            ELSE Print(<<"REJECTED at event", TLCGet(1), Rec[TLCGet(1)]>>, FALSE)
=============================================================================
