----------------------------- MODULE Trace_Json -----------------------------
(***************************************************************************)
(* Implementation -> specification for the JSON form.                      *)
(*  C08: ToJson(reg, json): the real serde output (lexically transcoded)   *)
(*       equals the documented shape JsonOf(reg) up to member order and    *)
(*       uses documented keys only; FromJson(json, res): deserialising it  *)
(*       yields the registry the documented inverse gives (= the original).*)
(*  C19: Schema(s) then Doc(d) events: the REAL generated schema validates *)
(*       every REAL serialised document, by the semantics of JsonSchema.   *)
(***************************************************************************)
EXTENDS JsonForm, JsonSchema, Json, IOUtils
CONSTANT Check
Rec == ndJsonDeserialize(IOEnv.TRACE)
VARIABLES l, schema
Init == l = 1 /\ schema = <<>>
Accept(e) ==
  CASE e.ev = "ToJson" -> Check = "C08" => (JEq(e.json, JsonOf(e.reg)) /\ KeysOf(e.json) \subseteq DocKeys)
    [] e.ev = "FromJson" -> Check = "C08" => ("ok" \in DOMAIN e.res /\ e.res.ok[1] = RegOfJson(e.json))
    [] e.ev = "Doc" -> Check = "C19" => Validates(schema, schema, e.d)
    [] e.ev = "Schema" -> TRUE
Next == /\ l <= Len(Rec) /\ Accept(Rec[l])
        /\ schema' = IF Rec[l].ev = "Schema" THEN Rec[l].s ELSE schema
        /\ l' = l + 1
Spec == Init /\ [][Next]_<<l, schema>>
Track == TLCSet(1, l)
Accepted == IF TLCGet(1) = Len(Rec) + 1 THEN TRUE
            ELSE Print(<<"REJECTED at event", TLCGet(1), Rec[TLCGet(1)].ev>>, FALSE)
View == l
=============================================================================
