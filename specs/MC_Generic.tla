----------------------------- MODULE MC_Generic -----------------------------
(***************************************************************************)
(* C13: the grammar of supported generic definitions, and a model of the    *)
(* where-clause the derive generates (derive/src/trait_bounds.rs) against   *)
(* what the generated body needs.                                           *)
(*                                                                         *)
(* A definition has 1..2 type parameters, optional lifetimes (two lifetimes *)
(* come with an outlives bound 'b: 'a), optional const parameter, and 1..2  *)
(* members drawn from usage TEMPLATES of a parameter p:                     *)
(*   direct p | Vec<p> | Option<p> | [p;2] | (p,u8) | Box<p> | Result<p,_>  *)
(*   PhantomData<p> | p::A | <p as Cfg>::A | Vec<p::A>                      *)
(*   Box<Self<..>> | Vec<Self<..>> | Option<Box<Self>> | Vec<(Self<..>, p)> *)
(*   Vec<(Self<..>, p::A)>                                                  *)
(*   #[codec(skip)] p | #[codec(skip)] NoInfoG<p> | #[codec(skip)] NoInfo   *)
(*   p::<Name> | Vec<p::<Name>>  with an associated type named like the      *)
(*   deriving type                                                           *)
(*   #[codec(compact)] u32 | u64 | #[codec(compact)] p | #[codec(compact)]  *)
(*   p::A  (TypeInfo derive only: with derived Encode the README's known     *)
(*   issue #65 applies)                                                      *)
(* plus modifiers: skip_type_params, bounds(..), defaults, inline bounds,   *)
(* where-clauses.                                                           *)
(*                                                                         *)
(* PREMISE (chosen by construction of the instantiation): non-skipped       *)
(* parameters and the types of members that are part of the encoding have   *)
(* TypeInfo; skipped parameters and #[codec(skip)] member types do not.     *)
(* `Predicted` models trait resolution coarsely and is used to CLASSIFY     *)
(* (which definitions the model expects the current algorithm to fail on);  *)
(* the oracle of the check is rustc.                                        *)
(***************************************************************************)
EXTENDS Naturals, Sequences, FiniteSets, SequencesExt, TLC, Json
CONSTANTS TwoFields, Pairwise
Templates == {"direct", "vec", "opt", "arr", "tup", "box", "result", "phantom", "assoc", "qassoc", "vecassoc",
              "selfbox", "selfvec", "selfkw", "selfmix", "selfassoc", "skipT", "skipNoInfoG", "skipNoInfo", "compactc", "concrete",
              "compactp", "compactassoc", "assocnamed", "vecassocnamed", "selfqassoc", "selfpathq"}
Encoding == {"direct", "vec", "opt", "arr", "tup", "box", "result", "selfmix", "compactp"}        \* p itself is part of the encoding
NeedsCfg == {"assoc", "qassoc", "vecassoc", "selfassoc", "selfqassoc", "compactassoc"}
\* p::G and Vec<p::G> where the associated type is NAMED LIKE THE DERIVING TYPE G (its own trait): not a self reference
NamedLikeSelf == {"assocnamed", "vecassocnamed"}
\* selfpathq: the self reference sits under a MULTI-SEGMENT path that does not start with a parameter
\* (Vec<core::option::Option<Self<..>>>): nothing inside it may be bound on its own
SelfRef == {"selfbox", "selfvec", "selfkw", "selfmix", "selfassoc", "selfqassoc", "selfpathq"}
Skipped == {"skipT", "skipNoInfoG", "skipNoInfo"}
MentionsP == Templates \ {"selfbox", "selfvec", "selfkw", "selfpathq", "skipNoInfo", "compactc", "concrete"}
\* "splitattr": the decisive codec attribute of a member is the SECOND of two #[codec(..)] attributes on the item
\* (#[codec(encoded_as = ..)] #[codec(skip)] on a field, #[codec(index = ..)] #[codec(skip)] on a variant): spelling only,
\* the where-clause must not depend on it
\* "revattr": the attribute lists in the REVERSE of the declaration order (skip_type_params(U, T), bounds(U: .., T: ..), the
\* bounds attribute before the skip attribute): spelling only, nothing may depend on the order in which a list names parameters
\* "skipused": EVERY parameter is named in skip_type_params, also those that are part of the encoding (legal: a skipped
\* parameter is merely not listed with a type; it is instantiated with a type that has type info, and the bound the member
\* needs comes from the member's own type)
\* "cratepath": #[scale_info(crate = ::sinfo)] with the library linked under that name and NOT reachable as ::scale_info:
\* every path the derive emits (trait, builders, prelude, HasCompact bounds) must go through the given crate path
Modifiers == {"lifetime", "lifetime2", "const", "default", "inline", "where", "skip", "custom", "enum", "tuple", "splitattr", "revattr", "cratepath", "skipused"}
Params == {"T", "U"}
VARIABLE d
\* d = [np |-> 1..2, fields |-> Seq([t, p]), mods |-> SUBSET Modifiers]
FieldsOf(np) == LET ps == IF np = 1 THEN {"T"} ELSE Params
                    F == {[t |-> t, p |-> p] : t \in Templates, p \in ps} IN
                {<<f>> : f \in F}
                \cup { <<[t |-> "direct", p |-> "T"], [t |-> "compactp", p |-> "T"]>>, <<[t |-> "compactp", p |-> "T"], [t |-> "direct", p |-> "T"]>>,
                       <<[t |-> "assoc", p |-> "T"], [t |-> "compactassoc", p |-> "T"]>>, <<[t |-> "vec", p |-> "T"], [t |-> "compactp", p |-> "T"]>>,
                       <<[t |-> "compactassoc", p |-> "T"], [t |-> "assoc", p |-> "T"]>> }       \* the same generic type plain and compact
                \* a self-referential member FIRST, then a member whose own bound is essential (and the opposite order)
                \cup UNION {{<<[t |-> sr, p |-> "T"], [t |-> es, p |-> "T"]>>, <<[t |-> es, p |-> "T"], [t |-> sr, p |-> "T"]>>} :
                             sr \in {"selfbox", "selfkw", "selfmix"}, es \in {"assoc", "vecassoc", "compactp", "compactassoc", "assocnamed"}}
                \cup (IF TwoFields THEN {<<f, g>> : f \in {[t |-> t, p |-> "T"] : t \in Templates}, g \in {[t |-> t, p |-> p] : t \in {"direct", "phantom", "assoc", "selfassoc", "skipNoInfoG", "vecassoc", "compactp", "compactassoc"}, p \in ps}} ELSE {})
\* always-covered pairs (interactions of the attribute paths with lifetimes and with skipping)
CorePairs == {{"custom", "lifetime"}, {"custom", "lifetime2"}, {"skip", "custom"}, {"skip", "enum"}, {"skip", "where"}, {"skip", "inline"}, {"skip", "lifetime"}, {"splitattr", "enum"}, {"splitattr", "tuple"}, {"splitattr", "custom"},
              {"cratepath", "skip"}, {"cratepath", "custom"}, {"cratepath", "enum"}, {"cratepath", "tuple"}, {"cratepath", "lifetime"}, {"cratepath", "skip", "custom"},
              {"skipused", "enum"}, {"skipused", "tuple"}, {"skipused", "where"}, {"skipused", "inline"}, {"skipused", "lifetime"}, {"skipused", "custom"}, {"skipused", "revattr"},
              {"const", "lifetime"}, {"const", "lifetime2"}, {"const", "skip"}, {"const", "enum"},
              {"revattr", "skip"}, {"revattr", "custom"}, {"revattr", "skip", "custom"}, {"revattr", "skip", "custom", "enum"}, {"revattr", "skip", "where"},
              {"where", "custom"}, {"inline", "custom"}, {"const", "custom"}, {"default", "custom"}, {"enum", "custom"}}      \* bounds(..) replaces the GENERATED bounds only
ModSets == {M \in SUBSET Modifiers : (Cardinality(M) <= (IF Pairwise THEN 2 ELSE 1) \/ M \in CorePairs) /\ ~({"lifetime", "lifetime2"} \subseteq M) /\ ~({"enum", "tuple"} \subseteq M)
                                      /\ ~({"const", "default"} \subseteq M)}
Init == d \in {[np |-> np, fields |-> fs, mods |-> M] : np \in 1..2, fs \in FieldsOf(1) \cup FieldsOf(2), M \in ModSets}
Next == UNCHANGED d
Spec == Init /\ [][Next]_d
Ps == IF d.np = 1 THEN {"T"} ELSE Params
UsedEnc(p) == \E i \in 1..Len(d.fields) : d.fields[i].p = p /\ d.fields[i].t \in Encoding
Used(p) == \E i \in 1..Len(d.fields) : d.fields[i].p = p /\ d.fields[i].t \in MentionsP
\* a parameter may be skipped only if it is not itself part of the encoding (premise)
SkipSet == IF "skipused" \in d.mods THEN Ps ELSE IF "skip" \in d.mods THEN {p \in Ps : ~UsedEnc(p)} ELSE {}
\* (a self-referential member that needs its parameter's type info gets it from the PARAMETER's bound only: with that
\* parameter skipped and no bounds(..) the definition is outside the premise)
WellFormed == /\ \A i \in 1..Len(d.fields) : d.fields[i].p \in Ps
              /\ ~({"skip", "skipused"} \subseteq d.mods)
              /\ ("skipused" \in d.mods /\ "custom" \notin d.mods) => \A i \in 1..Len(d.fields) : d.fields[i].t # "selfmix"
(* the where-clause of the generated impl, per trait_bounds.rs:
   - with bounds(..): exactly the custom predicates (here: every non-skipped parameter and every p::A used)
   - otherwise: a bound for every member type that mentions a parameter, is not #[codec(skip)] (the types of
     skipped members need no type info) and does not mention the type's own name; plus every non-skipped parameter *)
BoundField(f) == f.t \in MentionsP /\ f.t \notin Skipped /\ f.t \notin SelfRef
\* p: TypeInfo is available for member f: from the parameter's own bound, from the bound on the member's type, or
\* (bounds(..)) because the custom predicates name every parameter that is part of the encoding
Provided(f) == f.p \notin SkipSet \/ BoundField(f) \/ "custom" \in d.mods
AssocBound(p) ==      \* is `p::A: TypeInfo` in the where-clause
  IF "custom" \in d.mods THEN \E i \in 1..Len(d.fields) : d.fields[i].p = p /\ d.fields[i].t \in NeedsCfg
  ELSE \E i \in 1..Len(d.fields) : d.fields[i].p = p /\ d.fields[i].t \in {"assoc", "qassoc", "selfassoc", "selfqassoc"}
       \* bound on the member type itself; for a self-referential member (not bound as a whole) the associated types
       \* of parameters mentioned inside it are bound on their own (fix cfbc6c9; before it this was the known finding)
VecAssocBound(p) == "custom" \notin d.mods /\ \E i \in 1..Len(d.fields) : d.fields[i].p = p /\ d.fields[i].t = "vecassoc"
(* what the body needs, member by member, and whether the where-clause provides it *)
MemberOK(f) ==
  CASE f.t \in Skipped -> TRUE                                              \* not described at all
    [] f.t \in {"compactc", "concrete", "phantom", "selfbox", "selfvec", "selfkw", "selfpathq"} -> TRUE
    [] f.t \in Encoding \ {"selfmix"} -> Provided(f)                        \* p: TypeInfo from the parameter bound or the member bound
    [] f.t = "selfmix" -> Provided(f)
    [] f.t = "compactp" -> Provided(f)                                      \* p: TypeInfo and p: HasCompact (member bound)
    [] f.t \in NamedLikeSelf -> TRUE                                         \* bound on the member type itself
    [] f.t = "compactassoc" -> TRUE                                         \* the member bound must give HasCompact AND TypeInfo
    [] f.t \in {"assoc", "qassoc"} -> AssocBound(f.p)
    [] f.t = "vecassoc" -> AssocBound(f.p) \/ VecAssocBound(f.p)
    [] f.t \in {"selfassoc", "selfqassoc"} -> AssocBound(f.p)                                 \* p::A inside the self-referential member is bound on its own
Predicted == \A i \in 1..Len(d.fields) : MemberOK(d.fields[i])
Emit == WellFormed => PrintT(<<"GEN", ToJson([np |-> d.np, fields |-> d.fields, mods |-> SetToSeq(d.mods), skip |-> SetToSeq(SkipSet), predicted |-> Predicted])>>)
\* design-level statement: the generated where-clause is sufficient for every definition of the grammar
Sufficient == WellFormed => Predicted
=============================================================================
