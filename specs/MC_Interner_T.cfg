CONSTANTS V = {"a","b","c","d","e"} MaxProbe = 6
SPECIFICATION Spec
INVARIANT Bijective ListAnswers
PROPERTY AppendOnly NextIdAnnounced
VIEW View
CHECK_DEADLOCK FALSE
