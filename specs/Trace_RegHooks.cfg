SPECIFICATION TSpec
CONSTRAINT Track
POSTCONDITION Accepted
CHECK_DEADLOCK FALSE
