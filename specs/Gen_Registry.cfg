CONSTANTS N = 3 MaxKids = 2 MaxHist = 3 WithMany = FALSE PhantomW = 6
SPECIFICATION Spec
INVARIANT Emit
VIEW View
CHECK_DEADLOCK FALSE
