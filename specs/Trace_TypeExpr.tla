--------------------------- MODULE Trace_TypeExpr ---------------------------
(***************************************************************************)
(* Validation of what a generated program observed about a corpus of       *)
(* built-in type expressions.  Per program: `Expr` events (AST, TypeId of  *)
(* the MetaType, TypeId of the declared identity, type_info() with         *)
(* children as TypeIds), one `Reg` event (all registered in one registry:  *)
(* returned ids + the portable registry), one `Matrix` event (==, cmp,     *)
(* hash over all pairs), `Value` events (hand-written value tree + real    *)
(* SCALE bytes).  One acceptor per property:                               *)
(*  C04  every value's bytes decode, from the registry description alone,  *)
(*       to exactly that value; every definition has the documented shape  *)
(*  C05  two spellings share an id exactly when their normal forms agree   *)
(*  C16  MetaType == / cmp / hash agree with the DECLARED identities and   *)
(*       form a total order; same identity => same definition             *)
(*  C17  no definition lists a PhantomData member                          *)
(*  C02  the registry built from the corpus is the faithful image of the  *)
(*       compile-time graph extracted through MetaType::type_info()       *)
(*  C11  registering the corpus in another order gives the same registry   *)
(*       up to a renaming of ids (`Perm` events)                           *)
(***************************************************************************)
EXTENDS TypeExpr, ScaleValue, Json, IOUtils
CONSTANTS Check, DocsOn
Rec == ndJsonDeserialize(IOEnv.TRACE)
VARIABLES l, ex, reg, solo
vars == <<l, ex, reg, solo>>
Init == l = 1 /\ ex = <<>> /\ reg = <<>> /\ solo = <<>>
N == Len(ex)
HasExpr(c) == \E i \in 1..N : ex[i].e = c
TidOf(c) == ex[CHOOSE i \in 1..N : ex[i].e = c].tid
PhantomTid == ex[1].tid                       \* expression 0 is always PhantomData<()>
\* the documented definition with each child expression replaced by the TypeId observed for it.  C04 is about
\* STRUCTURE (kinds, paths, names, indices, lengths, references): documentation strings and the informal type
\* names of members are not part of it, so both sides are compared with those blanked
BlankF(fs) == [k \in 1..Len(fs) |-> [fs[k] EXCEPT !.docs = <<>>, !.tn = <<>>]]
Blank(info) == [info EXCEPT !.docs = <<>>,
                            !.def = CASE @.tag = "composite" -> [@ EXCEPT !.fields = BlankF(@)]
                                      [] @.tag = "variant" -> [@ EXCEPT !.variants = [k \in 1..Len(@) |-> [@[k] EXCEPT !.docs = <<>>, !.fields = BlankF(@)]]]
                                      [] OTHER -> @]
ShapeOK(i) == LET want == BuiltinInfo(ex[i].e, DocsOn) IN
   /\ \A c \in Range(Refs(want)) : HasExpr(c)
   /\ Blank(MapRefs(want, LAMBDA c : TidOf(c))) = Blank(ex[i].info)
NoPhantomObserved(info) ==
  CASE info.def.tag = "composite" -> \A i \in 1..Len(info.def.fields) : info.def.fields[i].ty # PhantomTid
    [] info.def.tag = "variant" -> \A i \in 1..Len(info.def.variants) : \A j \in 1..Len(info.def.variants[i].fields) : info.def.variants[i].fields[j].ty # PhantomTid
    [] info.def.tag = "tuple" -> \A i \in 1..Len(info.def.tys) : info.def.tys[i] # PhantomTid
    [] OTHER -> TRUE
AcceptReg(r) ==
  CASE Check = "C04" -> \A i \in 1..N : ShapeOK(i)
    [] Check = "C05" -> \A i, j \in 1..N : (r.ids[i] = r.ids[j]) <=> (NF(ex[i].e) = NF(ex[j].e))
    [] Check = "C01" -> WellFormed(r.types) /\ ResolveOK(r.types) /\ \A i \in 1..Len(r.ids) : r.ids[i] < Len(r.types)
    \* no member observed has the marker identity, and the observed members are exactly the documented ones after
    \* erasure (a marker that hides behind a wrapper which no longer forwards its identity is an extra member)
    [] Check = "C17" -> \A i \in 1..N : /\ NoPhantomObserved(ex[i].info) /\ NoPhantomMember(BuiltinInfo(ex[i].e, DocsOn))
                                          /\ LET want == BuiltinInfo(ex[i].e, DocsOn) IN
                                             (\A c \in Range(Refs(want)) : HasExpr(c)) => Refs(MapRefs(want, LAMBDA c : TidOf(c))) = Refs(ex[i].info)
    [] OTHER -> TRUE
AcceptMatrix(m) ==
  Check = "C16" =>
    /\ \A i \in 1..N : ex[i].tid = ex[i].decl                                   \* MetaType carries the declared identity
    /\ \A i, j \in 1..N : m.eq[i][j] <=> (ex[i].decl = ex[j].decl)              \* == is identity
    /\ \A i, j \in 1..N : (m.cmp[i][j] = 1) <=> m.eq[i][j]                      \* cmp consistent with ==
    /\ \A i, j \in 1..N : m.cmp[i][j] + m.cmp[j][i] = 2                         \* antisymmetric and total
    /\ \A i, j, k \in 1..N : (m.cmp[i][j] <= 1 /\ m.cmp[j][k] <= 1) => m.cmp[i][k] <= 1     \* transitive
    /\ \A i, j \in 1..N : m.pcmp[i][j]                                          \* partial_cmp = Some(cmp)
    /\ \A i, j \in 1..N : m.eq[i][j] => m.heq[i][j]                             \* equal => equal hashes
    /\ \A i, j \in 1..N : (ex[i].decl = ex[j].decl) => ex[i].info = ex[j].info  \* identities are coherent
    \* ... also with the one alias every type has whether or not the corpus names it: the declared identity ITSELF is a
    \* type with type info; it declares itself and reports the same definition
    /\ \A i \in 1..N : ex[i].idid = ex[i].decl /\ ex[i].idinfo = ex[i].info
\* a value must decode from the registry the whole program built AND from the registry that holds this type alone
AcceptValue(v) == Check = "C04" => /\ DecodesTo(reg.types, reg.ids[v.i + 1], v.bytes, v.tree)
                                   /\ (solo # <<>> /\ solo.i = v.i) => DecodesTo(solo.types, solo.id, v.bytes, v.tree)
\* C11 (iii) on real types: the corpus registered in another order gives the same registry up to renaming
AcceptPerm(e) == /\ Check = "C11" => RegIso(e.types1, e.types2, {<<e.ids1[i], e.ids2[i]>> : i \in 1..Len(e.ids1)})
                 /\ Check = "C01" => WellFormed(e.types1) /\ WellFormed(e.types2) /\ \A i \in 1..Len(e.ids2) : e.ids2[i] < Len(e.types2)
Next == /\ l <= Len(Rec)
        /\ LET e == Rec[l] IN
           CASE e.ev = "Expr" -> /\ ex' = (IF e.i = 0 THEN <<>> ELSE ex) \o <<[e |-> e.e, tid |-> e.tid, decl |-> e.decl, info |-> e.info, idinfo |-> e.idinfo, idid |-> e.idid]>>
                                 /\ reg' = IF e.i = 0 THEN <<>> ELSE reg
                                 /\ solo' = IF e.i = 0 THEN <<>> ELSE solo
             [] e.ev = "Solo" -> /\ Check = "C01" => WellFormed(e.types) /\ e.id < Len(e.types)
                                 \* C05 on a FRESH registry that meets this type first: one entry per distinct type reachable from it
                                 /\ Check = "C05" => Len(e.types) = Cardinality({NF(x) : x \in Closure({ex[e.i + 1].e})})
                                 /\ solo' = e /\ UNCHANGED <<ex, reg>>
             [] e.ev = "Reg" -> AcceptReg(e) /\ reg' = e /\ ex' = ex /\ solo' = solo
             [] e.ev = "Matrix" -> AcceptMatrix(e) /\ UNCHANGED <<ex, reg, solo>>
             [] e.ev = "Value" -> AcceptValue(e) /\ UNCHANGED <<ex, reg, solo>>
             [] e.ev = "Perm" -> AcceptPerm(e) /\ UNCHANGED <<ex, reg, solo>>
             [] e.ev = "Faithful" -> (Check = "C02" => FaithfulOK(e.nodes, e.types)) /\ UNCHANGED <<ex, reg, solo>>
             [] e.ev = "Retain" -> UNCHANGED <<ex, reg, solo>>          \* judged by Trace_Retain (C10)
        /\ l' = l + 1
Spec == Init /\ [][Next]_vars
Track == TLCSet(1, l)
Accepted == IF TLCGet(1) = Len(Rec) + 1 THEN TRUE
            ELSE Print(<<"REJECTED at event", TLCGet(1), Rec[TLCGet(1)].ev>>, FALSE)
View == l
=============================================================================
