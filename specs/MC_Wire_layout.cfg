CONSTANTS Mode = "layout" MaxFaults = 0 Stride = 1
SPECIFICATION Spec
INVARIANT FormatRoundTrip FormatCanonical
CHECK_DEADLOCK FALSE
