----------------------------- MODULE ScaleValue -----------------------------
(***************************************************************************)
(* The decoder a third party writes: it knows ONLY a PortableRegistry      *)
(* (plain data model: ids and lengths as naturals, strings as TLA+         *)
(* strings) and the SCALE rules, never the Rust type.                      *)
(*   fixed-width little-endian integers and bool as byte strings           *)
(*   str: compact length + bytes        compact integers (canonical forms) *)
(*   sequence: compact length + elements     array: len elements           *)
(*   tuple / composite: members in order     variant: index byte + fields  *)
(*   compact<T>: T a primitive, unit, or a single-field wrapper of those   *)
(*   bit sequence: compact bit count + store elements, Lsb0 / Msb0         *)
(* Result: [ok, v |-> abstract value tree, pos |-> next position].         *)
(* Wide integers never become TLC integers: leaves are byte strings.       *)
(***************************************************************************)
EXTENDS Naturals, Sequences, FiniteSets, SequencesExt, TLC
VFail == [ok |-> FALSE]
VOk(v, p) == [ok |-> TRUE, v |-> v, pos |-> p]
Width(p) == CASE p = "bool" -> 1 [] p = "u8" -> 1 [] p = "i8" -> 1 [] p = "u16" -> 2 [] p = "i16" -> 2
              [] p = "u32" -> 4 [] p = "i32" -> 4 [] p = "u64" -> 8 [] p = "i64" -> 8 [] p = "u128" -> 16 [] p = "i128" -> 16
              [] p = "u256" -> 32 [] p = "i256" -> 32 [] p = "char" -> 4 [] p = "str" -> 0
VHas(bytes, pos, n) == pos + n - 1 <= Len(bytes)
Take(bytes, pos, n) == SubSeq(bytes, pos, pos + n - 1)
Zeros(n) == [i \in 1..n |-> 0]
ShiftR2S(bs) == [i \in 1..Len(bs) |-> (bs[i] \div 4) + (IF i < Len(bs) THEN (bs[i+1] % 4) * 64 ELSE 0)]
RECURSIVE StripZ(_)
StripZ(bs) == IF bs # <<>> /\ bs[Len(bs)] = 0 THEN StripZ(SubSeq(bs, 1, Len(bs)-1)) ELSE bs
\* compact integer -> minimal LE byte string (no trailing zeros); canonical encodings only
CompactLE(bytes, pos) ==
  IF ~VHas(bytes, pos, 1) THEN VFail ELSE
  LET b0 == bytes[pos] m == b0 % 4 IN
  CASE m = 0 -> VOk(StripZ(<<b0 \div 4>>), pos + 1)
    [] m = 1 -> IF ~VHas(bytes, pos, 2) THEN VFail ELSE
                LET v == StripZ(ShiftR2S(Take(bytes, pos, 2))) IN
                IF Len(v) = 2 \/ (Len(v) = 1 /\ v[1] >= 64) THEN VOk(v, pos + 2) ELSE VFail
    [] m = 2 -> IF ~VHas(bytes, pos, 4) THEN VFail ELSE
                LET v == StripZ(ShiftR2S(Take(bytes, pos, 4))) IN
                IF Len(v) >= 3 \/ (Len(v) = 2 /\ v[2] >= 64) THEN VOk(v, pos + 4) ELSE VFail
    [] m = 3 -> LET n == (b0 \div 4) + 4 IN
                IF ~VHas(bytes, pos + 1, n) THEN VFail ELSE
                LET v == Take(bytes, pos + 1, n) IN
                IF v[n] = 0 \/ (n = 4 /\ v[4] < 64) THEN VFail ELSE VOk(v, pos + 1 + n)
LEToNat(bs) == IF bs = <<>> THEN 0 ELSE IF Len(bs) = 1 THEN bs[1] ELSE IF Len(bs) = 2 THEN bs[1] + 256 * bs[2]
               ELSE IF Len(bs) = 3 THEN bs[1] + 256 * bs[2] + 65536 * bs[3] ELSE bs[1] + 256 * bs[2] + 65536 * bs[3] + 16777216 * bs[4]
CompactLen(bytes, pos) == LET c == CompactLE(bytes, pos) IN
   IF ~c.ok \/ Len(c.v) > 4 \/ (Len(c.v) = 4 /\ c.v[4] >= 128) THEN VFail ELSE VOk(LEToNat(c.v), c.pos)
EntryOfId(reg, id) == reg[id + 1]
\* a zero-sized PhantomData marker that slipped into a description carries no value: members of this
\* type are dropped before comparison, so that erasure is judged by C17 alone
IsPhantomEntry(t) == t.path = <<"PhantomData">> /\ t.def.tag = "composite" /\ t.def.fields = <<>>
\* compact<T>: T primitive, unit, or a chain of single-field composites ending in one (CompactAs)
RECURSIVE CompactTarget(_, _, _)
CompactTarget(reg, id, fuel) ==
  LET d == EntryOfId(reg, id).def IN
  IF d.tag = "primitive" THEN [k |-> "prim", p |-> d.prim]
  ELSE IF d.tag = "tuple" /\ d.tys = <<>> THEN [k |-> "unit"]
  ELSE IF d.tag = "composite" /\ Len(d.fields) = 1 /\ fuel > 0 THEN CompactTarget(reg, d.fields[1].ty, fuel - 1)
  ELSE [k |-> "bad"]
RECURSIVE Dec(_, _, _, _), DecList(_, _, _, _, _), DecRep(_, _, _, _, _, _), DecFields(_, _, _, _, _)
DecList(reg, ids, bytes, pos, acc) ==
  IF ids = <<>> THEN VOk(acc, pos) ELSE
  LET r == Dec(reg, Head(ids), bytes, pos) IN IF ~r.ok THEN VFail ELSE
  DecList(reg, Tail(ids), bytes, r.pos, IF IsPhantomEntry(EntryOfId(reg, Head(ids))) THEN acc ELSE Append(acc, r.v))
DecRep(reg, id, n, bytes, pos, acc) ==
  IF n = 0 THEN VOk(acc, pos) ELSE
  LET r == Dec(reg, id, bytes, pos) IN IF ~r.ok THEN VFail ELSE DecRep(reg, id, n - 1, bytes, r.pos, Append(acc, r.v))
DecFields(reg, fs, bytes, pos, acc) ==
  IF fs = <<>> THEN VOk(acc, pos) ELSE
  LET r == Dec(reg, Head(fs).ty, bytes, pos) IN IF ~r.ok THEN VFail ELSE
  DecFields(reg, Tail(fs), bytes, r.pos,
            IF IsPhantomEntry(EntryOfId(reg, Head(fs).ty)) THEN acc ELSE Append(acc, [n |-> Head(fs).name, v |-> r.v]))
Dec(reg, id, bytes, pos) ==
  IF id + 1 \notin 1..Len(reg) THEN VFail ELSE
  LET d == EntryOfId(reg, id).def IN
  CASE d.tag = "primitive" ->
         IF d.prim = "str" THEN
            LET c == CompactLen(bytes, pos) IN IF ~c.ok \/ ~VHas(bytes, c.pos, c.v) THEN VFail
            ELSE VOk([k |-> "str", b |-> Take(bytes, c.pos, c.v)], c.pos + c.v)
         ELSE IF ~VHas(bytes, pos, Width(d.prim)) THEN VFail
         ELSE IF d.prim = "bool" /\ bytes[pos] > 1 THEN VFail
         ELSE VOk([k |-> "prim", b |-> Take(bytes, pos, Width(d.prim))], pos + Width(d.prim))
    [] d.tag = "compact" ->
         LET tg == CompactTarget(reg, d.ty, 4) IN
         IF tg.k = "unit" THEN VOk([k |-> "compact", v |-> [k |-> "tuple", i |-> <<>>]], pos)
         ELSE IF tg.k = "bad" THEN VFail
         ELSE LET c == CompactLE(bytes, pos) IN
         IF ~c.ok \/ Len(c.v) > Width(tg.p) THEN VFail
         ELSE VOk([k |-> "compact", v |-> [k |-> "prim", b |-> c.v \o Zeros(Width(tg.p) - Len(c.v))]], c.pos)
    [] d.tag = "bitsequence" ->
         IF d.store + 1 \notin 1..Len(reg) \/ d.order + 1 \notin 1..Len(reg) THEN VFail ELSE
         LET st == EntryOfId(reg, d.store).def
             ord == EntryOfId(reg, d.order).path
             c == CompactLen(bytes, pos) IN
         IF st.tag # "primitive" \/ ord = <<>> \/ ~c.ok THEN VFail ELSE
         LET W == Width(st.prim) bitsPer == 8 * W
             nEl == (c.v + bitsPer - 1) \div bitsPer
             lsb == ord[Len(ord)] = "Lsb0" IN
         IF W = 0 \/ ord[Len(ord)] \notin {"Lsb0", "Msb0"} \/ ~VHas(bytes, c.pos, nEl * W) THEN VFail ELSE
         LET Bit(i) == LET e == i \div bitsPer j == i % bitsPer p == IF lsb THEN j ELSE bitsPer - 1 - j
                           byte == bytes[c.pos + e * W + (p \div 8)] IN (byte \div (2 ^ (p % 8))) % 2
         IN VOk([k |-> "bits", b |-> [i \in 1..c.v |-> Bit(i - 1)]], c.pos + nEl * W)
    [] d.tag = "sequence" ->
         LET c == CompactLen(bytes, pos) IN IF ~c.ok THEN VFail ELSE
         LET r == DecRep(reg, d.ty, c.v, bytes, c.pos, <<>>) IN IF ~r.ok THEN VFail ELSE VOk([k |-> "seq", i |-> r.v], r.pos)
    [] d.tag = "array" ->
         LET r == DecRep(reg, d.ty, d.len, bytes, pos, <<>>) IN IF ~r.ok THEN VFail ELSE VOk([k |-> "array", i |-> r.v], r.pos)
    [] d.tag = "tuple" ->
         LET r == DecList(reg, d.tys, bytes, pos, <<>>) IN IF ~r.ok THEN VFail ELSE VOk([k |-> "tuple", i |-> r.v], r.pos)
    [] d.tag = "composite" ->
         LET r == DecFields(reg, d.fields, bytes, pos, <<>>) IN IF ~r.ok THEN VFail ELSE VOk([k |-> "composite", f |-> r.v], r.pos)
    [] d.tag = "variant" ->
         IF ~VHas(bytes, pos, 1) THEN VFail ELSE
         LET cands == {j \in 1..Len(d.variants) : d.variants[j].index = bytes[pos]} IN
         IF Cardinality(cands) # 1 THEN VFail ELSE
         LET v == d.variants[CHOOSE j \in cands : TRUE]
             r == DecFields(reg, v.fields, bytes, pos + 1, <<>>) IN
         IF ~r.ok THEN VFail ELSE VOk([k |-> "variant", name |-> v.name, f |-> r.v], r.pos)
\* the statement of C03/C04 for one value: the description alone consumes the encoding exactly and
\* recovers the value
DecodesTo(reg, id, bytes, tree) == LET r == Dec(reg, id, bytes, 1) IN r.ok /\ r.pos = Len(bytes) + 1 /\ r.v = tree
=============================================================================
