--------------------------- MODULE MC_TypeBuilders ---------------------------
(* Explores the builder automata: every enabled call sequence up to MaxCalls *)
(* per builder over a small argument alphabet, in both forms.  Complete      *)
(* sequences are printed with the value the specification says is built      *)
(* (POS, for C17); every state's disabled calls are printed as the frontier  *)
(* of the automaton (NEG, for C20: legal prefix + one call that must not     *)
(* compile).                                                                 *)
EXTENDS TypeBuilders, Json
CONSTANTS MaxCalls
VARIABLES b, f, arg, calls, st, done, res
vars == <<b, f, arg, calls, st, done, res>>
D1 == <<"d1">>  D2 == <<"d1", "d2">>
C(m) == [m |-> m]
TypesOf(form) == IF form = "M" THEN {"u8", "String", "PhantomData<u8>", "Box<PhantomData<()>>", "std::sync::Arc<PhantomData<u8>>"} ELSE {0, 7}
DocCalls(form) == IF form = "M" THEN {[m |-> "docs", d |-> D1], [m |-> "docs_always", d |-> D2]} ELSE {[m |-> "docs_portable", d |-> D1]}
FBCalls(form) == {[m |-> "name", n |-> n] : n \in {"a", "b"}} \cup {[m |-> "ty", t |-> t] : t \in TypesOf(form)}
                 \cup (IF form = "M" THEN {[m |-> "compact", t |-> "u32"]} ELSE {})
                 \cup {[m |-> "type_name", tn |-> "T1"]} \cup DocCalls(form) \cup {C("finalize")}
Ty1(form) == IF form = "M" THEN "u8" ELSE 0
Ty2(form) == IF form = "M" THEN "String" ELSE 7
TyPh(form) == IF form = "M" THEN "PhantomData<u8>" ELSE 7
\* closures for FieldsBuilder::field: FB call sequences (no finaliser)
FieldSeqs(form) == { << [m |-> "name", n |-> "a"], [m |-> "ty", t |-> Ty1(form)] >>,
                     << [m |-> "ty", t |-> Ty2(form)], [m |-> "name", n |-> "b"], [m |-> "type_name", tn |-> "T1"] >> \o SetToSeq(DocCalls(form)),
                     << [m |-> "ty", t |-> Ty1(form)] >>,
                     << [m |-> "type_name", tn |-> "T1"], [m |-> "ty", t |-> TyPh(form)] >>,
                     << [m |-> "name", n |-> "a"], [m |-> "ty", t |-> TyPh(form)] >>,
                     << [m |-> "name", n |-> "b"], [m |-> "ty", t |-> TyPh(form)] >> \o SetToSeq(DocCalls(form)),      \* a DOCUMENTED phantom member
                     \* the declared type name is opaque text: a real member whose NAME spells a (path-qualified) marker stays,
                     \* a marker whose name spells something else goes
                     << [m |-> "name", n |-> "a"], [m |-> "type_name", tn |-> "core::marker::PhantomData<T>"], [m |-> "ty", t |-> Ty1(form)] >>,
                     << [m |-> "type_name", tn |-> "(u32, marker::PhantomDataTag)"], [m |-> "ty", t |-> Ty2(form)] >>,
                     << [m |-> "name", n |-> "b"], [m |-> "type_name", tn |-> "u8"], [m |-> "ty", t |-> TyPh(form)] >>,
                     << [m |-> "name", n |-> "a"] >>,            \* no type: never accepted
                     << >> }
\* ... and, as the FIRST field of a named / unnamed set, EVERY FieldBuilder call sequence of up to three calls over a
\* reduced alphabet: the typestate a closure ends in is only observable through what FieldsBuilder::field accepts
WideFB(form) == IF form = "M" THEN {[m |-> "name", n |-> "a"], [m |-> "ty", t |-> "u8"], [m |-> "compact", t |-> "u32"], [m |-> "type_name", tn |-> "T1"], [m |-> "docs_always", d |-> D2]}
                ELSE {[m |-> "name", n |-> "a"], [m |-> "ty", t |-> 0], [m |-> "type_name", tn |-> "T1"], [m |-> "docs_portable", d |-> D1]}
UpTo3(S) == {<< >>} \cup {<<x>> : x \in S} \cup {<<x, y>> : x \in S, y \in S} \cup {<<x, y, z>> : x \in S, y \in S, z \in S}
WideFieldSeqs(form) == UpTo3(WideFB(form)) \ FieldSeqs(form)
FSCalls(form) == {[m |-> "field", seq |-> s] : s \in FieldSeqs(form) \cup WideFieldSeqs(form)} \cup {C("finalize")}
Fd(s) == [m |-> "field", seq |-> s]
\* FieldsBuilder call sequences used as arguments of VB.fields / TB.composite: <<kind, calls>>
FSArgs(form) == { <<"named", <<Fd(<< [m |-> "name", n |-> "a"], [m |-> "ty", t |-> Ty1(form)] >>), Fd(<< [m |-> "name", n |-> "b"], [m |-> "ty", t |-> TyPh(form)] >>)>> >>,
                  <<"unnamed", <<Fd(<< [m |-> "ty", t |-> Ty2(form)] >>), Fd(<< [m |-> "ty", t |-> Ty1(form)], [m |-> "type_name", tn |-> "T1"] >>)>> >>,
                  <<"unit", << >> >>,
                  <<"named", <<Fd(<< [m |-> "ty", t |-> Ty1(form)] >>)>> >>,          \* unnamed field among named: never accepted
                  <<"unit", <<Fd(<< [m |-> "ty", t |-> Ty1(form)] >>)>> >> }          \* a field on Fields::unit(): never accepted
VBCalls(form) == {[m |-> "index", i |-> i] : i \in {0, 255}} \cup {[m |-> "discriminant", d |-> 9]}
                 \cup {[m |-> "fields", k |-> a[1], seq |-> a[2]] : a \in FSArgs(form)} \cup DocCalls(form) \cup {C("finalize")}
VBSeqs(form) == { << [m |-> "index", i |-> 0] >>,
                  << [m |-> "fields", k |-> "unnamed", seq |-> <<Fd(<< [m |-> "ty", t |-> Ty2(form)] >>)>>], [m |-> "index", i |-> 255] >> \o SetToSeq(DocCalls(form)),
                  << [m |-> "index", i |-> 7] >> \o SetToSeq(DocCalls(form)),          \* a DOCUMENTED variant without fields
                  << [m |-> "discriminant", d |-> 9] >> }                              \* no index: never accepted
VSCalls(form) == {[m |-> "variant", name |-> n, seq |-> s] : n \in {"A"}, s \in VBSeqs(form)}
                 \cup {[m |-> "variant_unit", name |-> "U", i |-> 3]} \cup {C("finalize")}
ParamSets(form) == { << >>, << [name |-> "T", ty |-> <<Ty1(form)>>] >>, << [name |-> "T", ty |-> << >>], [name |-> "U", ty |-> <<TyPh(form)>>] >> }
VSArgs(form) == { << >>, << [m |-> "variant_unit", name |-> "U", i |-> 3], [m |-> "variant", name |-> "A", seq |-> << [m |-> "index", i |-> 0] >>] >>,
                  << [m |-> "variant", name |-> "A", seq |-> << [m |-> "discriminant", d |-> 9] >>] >> }
MacroCalls(form) == IF form = "M" THEN { [m |-> "type_params_macro", tys |-> <<"u8", "String">>], [m |-> "type_params_macro", tys |-> << >>],
                                             [m |-> "named_type_params_macro", ps |-> << <<"T", "u8">>, <<"U", "String">> >>] } ELSE {}
TBCalls(form) == {[m |-> "path", p |-> <<"m", "T">>]} \cup {[m |-> "type_params", ps |-> ps] : ps \in ParamSets(form)} \cup DocCalls(form) \cup MacroCalls(form)
                 \cup {[m |-> "composite", k |-> a[1], seq |-> a[2]] : a \in FSArgs(form)} \cup {[m |-> "variant", seq |-> s] : s \in VSArgs(form)}
Alphabet(bk, form) == CASE bk = "FB" -> FBCalls(form) [] bk = "FS" -> FSCalls(form) [] bk = "VB" -> VBCalls(form)
                        [] bk = "VS" -> VSCalls(form) [] bk = "TB" -> TBCalls(form)
Starts == {<<"FB", << >> >>, <<"FS", "named">>, <<"FS", "unnamed">>, <<"FS", "unit">>, <<"VB", "V">>, <<"VS", << >> >>, <<"TB", << >> >>}
Init == \E s0 \in Starts : \E form \in {"M", "P"} :
          /\ b = s0[1] /\ f = form /\ arg = s0[2] /\ calls = << >> /\ st = Start(s0[1], form, s0[2]) /\ done = FALSE /\ res = << >>
Considered(c) == (b = "FS" /\ c.m = "field" /\ c.seq \in WideFieldSeqs(f)) => (calls = << >> /\ arg # "unit")
Step(c) == /\ ~done /\ Len(calls) < MaxCalls /\ Considered(c) /\ Enabled(st, c)
           /\ calls' = Append(calls, c)
           /\ IF IsFinal(c) THEN done' = TRUE /\ res' = Result(st, c) /\ st' = st
              ELSE done' = FALSE /\ res' = res /\ st' = Apply(st, c)
           /\ UNCHANGED <<b, f, arg>>
Next == \E c \in Alphabet(b, f) : Step(c)
Spec == Init /\ [][Next]_vars
\* C17 at the design level: nothing phantom is ever listed as a member by a compile-time-form builder
RECURSIVE NoPhantomIn(_)
NoPhantomIn(fs) == \A i \in 1..Len(fs) : fs[i].ty # "phantom"
C17_NoPhantom == (done /\ f = "M") =>
   CASE b = "FS" -> NoPhantomIn(res)
     [] b = "VB" -> NoPhantomIn(res.fields)
     [] b = "VS" -> \A i \in 1..Len(res) : NoPhantomIn(res[i].fields)
     [] b = "TB" -> IF res.def.tag = "composite" THEN NoPhantomIn(res.def.fields) ELSE \A i \in 1..Len(res.def.variants) : NoPhantomIn(res.def.variants[i].fields)
     [] OTHER -> TRUE
\* C20 at the design level: no finaliser is enabled while a mandatory part is missing
C20_NoIllFormed == done =>
   CASE b = "FB" -> st.ts.ty
     [] b = "VB" -> st.ts.index
     [] b = "TB" -> st.ts.path
     [] OTHER -> TRUE
EmitPos == done => PrintT(<<"POS", ToJson([b |-> b, f |-> f, arg |-> arg, calls |-> calls, res |-> res])>>)
EmitNeg == ~done => \A c \in Alphabet(b, f) : ~Considered(c) \/ Enabled(st, c) \/ PrintT(<<"NEG", ToJson([b |-> b, f |-> f, arg |-> arg, calls |-> calls, ts |-> st.ts, bad |-> c])>>)
=============================================================================
