---------------------------- MODULE MC_TypeExpr ----------------------------
(***************************************************************************)
(* Enumerates the corpus of built-in type expressions (one per initial     *)
(* state): every leaf; every unary constructor over every leaf; every pair *)
(* of unary constructors over a small leaf set (wrappers of wrappers,      *)
(* containers of containers); the binary constructors; every tuple arity   *)
(* 0..20; arrays of length 0,1,3,32,33; BitVec over 4 stores x 2 orders.   *)
(* Checks the design-level facts about NF and BuiltinInfo on each, and     *)
(* prints each valid expression (closed under the expressions its          *)
(* definition mentions) for the generated conformance programs.            *)
(***************************************************************************)
EXTENDS TypeExpr, Json
CONSTANTS Depth2, Depth3
VARIABLE e
Unit == Tup(<<>>)
LeafNames == PrimLeaves \cup {"String", "Duration"} \cup NonZeros
Leaves == {E0(c) : c \in LeafNames} \cup {Unit}
Small == {E0("u8"), E0("String"), E0("bool"), E0("u64")}
UnaryC == {"Vec", "VecDeque", "Option", "Box", "Rc", "Arc", "Ref", "RefMut", "Cow", "BTreeSet", "BinaryHeap", "Compact", "Range", "RangeInclusive", "PhantomData"}
Un(x) == {E1(c, x) : c \in UnaryC} \cup {ArrE(n, x) : n \in {0, 1, 3, 32, 33}}
           \cup {E1(w, E1("Slice", x)) : w \in {"Box", "Ref"}} \cup {E1("Cow", E1("Slice", x))}
Unsized == {E1(w, E0("str")) : w \in {"Box", "Ref", "Rc", "Arc", "Cow", "RefMut"}}
Bin(x, y) == {E2("Result", x, y), E2("BTreeMap", x, y), Tup(<<x, y>>)}
RECURSIVE Nest(_, _, _)
Nest(c, n, x) == IF n = 0 THEN x ELSE E1(c, Nest(c, n - 1, x))
TupleN(n) == Tup([i \in 1..n |-> IF i % 5 = 0 THEN E1("PhantomData", E0("u8")) ELSE IF i % 3 = 0 THEN E0("String") ELSE IF i % 2 = 0 THEN E0("u16") ELSE E0("u8")])
BitVecs == {E2("BitVec", E0(s), E0(o)) : s \in {"u8", "u16", "u32", "u64"}, o \in {"Lsb0", "Msb0"}}
D1 == UNION {Un(x) : x \in Leaves}
D2 == IF Depth2 THEN UNION {Un(y) : y \in UNION {Un(x) : x \in Small}} ELSE UNION {Un(y) : y \in Un(E0("u8"))}
D3 == IF Depth3 THEN UNION {Un(z) : z \in UNION {Un(y) : y \in {E1("Box", E0("u8")), E1("Vec", E0("u8")), E1("Option", E0("String")), E1("PhantomData", E0("u8")), E1("Ref", E0("str"))}}} ELSE {}
Corpus == Leaves \cup Unsized \cup D1 \cup D2 \cup D3 \cup UNION {Bin(x, y) : x \in Small \cup {E1("Box", E0("u8"))}, y \in Small \cup {E1("Vec", E0("bool")), E1("PhantomData", Unit)}}
          \cup {TupleN(n) : n \in 0..20} \cup BitVecs \cup {E0("Lsb0"), E0("Msb0")}
          \* a compound member FOLLOWED by one of the types it contains (met for the first time inside that member)
          \cup UNION {{Tup(<<E1("Option", x), x>>), Tup(<<E1("Vec", x), x>>), Tup(<<Tup(<<E0("bool"), x>>), x>>), Tup(<<E2("Result", E0("bool"), x), x>>),
                       E2("BTreeMap", E1("Vec", x), x)} : x \in {E0("u16"), E0("String"), E0("i64")}}
          \* a tuple whose LATER member converts another tuple (directly, inside a sequence, inside a map) met for the first time
          \cup UNION {{Tup(<<E0("u8"), Tup(<<x, E0("u32")>>)>>), Tup(<<E0("u8"), E0("bool"), E1("Vec", Tup(<<x, E0("u32")>>))>>),
                       Tup(<<E0("u8"), E2("BTreeMap", x, E0("bool"))>>), Tup(<<Tup(<<x>>), Tup(<<E0("bool"), Tup(<<x, x>>)>>)>>)} : x \in {E0("u16"), E0("String")}}
          \* a marker behind EVERY transparent wrapper (and behind two), as a tuple member and as a variant payload
          \cup UNION {{Tup(<<E0("u64"), E1(w, E1("PhantomData", E0("u8"))), E0("bool")>>), E1("Option", E1(w, E1("PhantomData", E0("u16")))),
                       Tup(<<E1(w, E1("Box", E1("PhantomData", Unit))), E0("u8")>>), Tup(<<E1("Arc", E1(w, E1("PhantomData", Unit))), E0("u8")>>)} : w \in Transparent}
          \* DEEP nesting: a chain of 70 / 100 types each first met while all the outer ones are still under construction
          \cup {Nest("Option", 70, E0("u8")), Nest("Vec", 100, E0("bool")), Tup(<<E0("u16"), Nest("Option", 70, E0("u16"))>>)}
          \* two same-named, same-path user types, alone and inside built-in constructors
          \cup UNION {{L, E1("Vec", L), E1("Option", L), E1("Box", L), ArrE(2, L), E2("Result", L, E0("u8"))} : L \in {[c |-> "Local", a |-> <<>>, n |-> 1], [c |-> "Local", a |-> <<>>, n |-> 2]}}
          \cup {Tup(<<[c |-> "Local", a |-> <<>>, n |-> 1], [c |-> "Local", a |-> <<>>, n |-> 2]>>)}
          \* every pattern of marker / non-marker members in short tuples (first, last, adjacent, several, all)
          \cup {Tup(ms) : ms \in [1..3 -> {E0("u8"), E1("PhantomData", E0("u8")), E1("Box", E1("PhantomData", Unit))}]}
          \cup {Tup(ms) : ms \in [1..4 -> {E0("u16"), E1("PhantomData", E0("String"))}]}
          \cup {Tup(<<E1("PhantomData", E0("u8"))>>), Tup(<<E1("Box", E1("PhantomData", E0("u8"))), E0("u8")>>), E1("Option", E1("Rc", E1("PhantomData", Unit)))}
          \* markers between members of DIFFERENT widths (an erasure that reorders the survivors shows in the decoded leaves)
          \cup {Tup(<<E0("u8"), E1("PhantomData", E0("bool")), E0("u16"), E0("u32")>>),
                Tup(<<E1("PhantomData", Unit), E0("bool"), E0("u64"), E0("String"), E1("PhantomData", E0("u8")), E0("u16")>>),
                Tup(<<E0("u8"), E1("PhantomData", E0("u8")), E1("Box", E1("PhantomData", Unit)), E0("u16"), E0("u32"), E0("u64")>>)}
          \* array lengths around one-byte / two-byte boundaries (the length is a u32 of the description, never on the wire)
          \cup {ArrE(n, E0("u8")) : n \in {63, 64, 255, 256, 1000}} \cup {ArrE(257, E0("bool")), E1("Vec", ArrE(64, E0("u16")))}

(* which expressions are legal Rust types with a TypeInfo impl *)
RECURSIVE Has(_, _)
Has(x, cs) == x.c \in cs \/ \E i \in 1..Len(x.a) : Has(x.a[i], cs)
Sized(x) == x.c \notin {"str", "Slice"}
OrdOK(x) == ~Has(x, {"Range", "RangeInclusive", "BinaryHeap"})
CloneOK(x) == ~Has(x, {"RefMut"})
RECURSIVE Valid(_)
Valid(x) ==
  /\ \A i \in 1..Len(x.a) : Valid(x.a[i])
  /\ CASE x.c \in Transparent -> TRUE
       [] x.c = "Cow" -> CloneOK(x.a[1]) /\ (x.a[1].c = "Slice" => Sized(x.a[1].a[1]))
       [] x.c = "Compact" -> x.a[1].c \in UInts \/ x.a[1] = Unit
       [] x.c \in {"BTreeMap", "BTreeSet", "BinaryHeap"} -> OrdOK(x.a[1]) /\ \A i \in 1..Len(x.a) : Sized(x.a[i])
       [] x.c \in {"Range", "RangeInclusive"} -> Sized(x.a[1]) /\ OrdOK(x.a[1])
       [] x.c = "BitVec" -> x.a[1].c \in {"u8", "u16", "u32", "u64"} /\ x.a[2].c \in {"Lsb0", "Msb0"}
       [] x.c = "Slice" -> Sized(x.a[1])
       [] x.c = "Tuple" -> Len(x.a) <= 20 /\ \A i \in 1..Len(x.a) : Sized(x.a[i])
       [] OTHER -> \A i \in 1..Len(x.a) : Sized(x.a[i])

Init == e \in {x \in Corpus : Valid(x)}
Next == UNCHANGED e
Spec == Init /\ [][Next]_e
\* design-level facts
NFIdempotent == NF(NF(e)) = NF(e)
\* identities are coherent: a spelling and its normal form have the same definition
Coherent == \A d \in BOOLEAN : BuiltinInfo(e, d) = BuiltinInfo(NF(e), d)
C17_NoPhantomMember == NoPhantomMember(BuiltinInfo(e, TRUE))
ClosedUnderChildren == \A c \in Closure({e}) : Valid(c)
Emit == PrintT(<<"CASE", ToJson([e |-> e, closure |-> SetToSeq(Closure({e}))])>>)
=============================================================================
