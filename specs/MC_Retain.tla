----------------------------- MODULE MC_Retain -----------------------------
(* All graphs on N nodes with <= MaxKids ordered references per node x all  *)
(* 2^(N+1) filters, as concrete registries (Shapes).  A filter is a total    *)
(* predicate on numbers: the number N stands for "every number that is no   *)
(* id of the registry" (|_| true accepts those too).                        *)
EXTENDS Retain, Shapes, Json
CONSTANTS N, MaxKids, WithOutside
Ids == 0..(N-1)
KidSeqs == UNION {[1..k -> Ids] : k \in 0..MaxKids}
\* leaf nodes take their definition from a second family as well (salt = 1): unit type, empty enum, u256
Sel(t, ks, salt) == t + (IF Len(ks) >= 1 THEN ks[1] ELSE 0) + (IF Len(ks) >= 2 THEN 2 * ks[2] ELSE 0) + (IF Len(ks) = 0 THEN 3 * salt ELSE 0)
RegOfS(kids, salt) == [p \in 1..N |-> WithId(ShapeBody(p-1, kids[p-1], Sel(p-1, kids[p-1], salt)), p-1)]
RegOf(kids) == RegOfS(kids, 0)
Init == \E kids \in [Ids -> KidSeqs] : \E salt \in 0..1 : (salt = 1 => \E i \in Ids : kids[i] = <<>>) /\ \E k \in SUBSET (Ids \cup (IF WithOutside THEN {N} ELSE {})) : TInitWith(RegOfS(kids, salt), k)
Spec == Init /\ [][RNext]_tvars /\ WF_tvars(RNext)
Pairs(m) == SetToSeq({<<i, m[i]>> : i \in DOMAIN m})
Emit == Done => PrintT(<<"REPLAY", ToJson([old |-> orig, keep |-> [i \in 1..N |-> (i-1) \in keep], outside |-> N \in keep, map |-> Pairs(rmap), new |-> newT])>>)
=============================================================================
