----------------------------- MODULE MC_Retain -----------------------------
(* All graphs on N nodes with <= MaxKids ordered references per node x all  *)
(* 2^(N+1) filters, as concrete registries (Shapes).  A filter is a total    *)
(* predicate on numbers: the number N stands for "every number that is no   *)
(* id of the registry" (|_| true accepts those too).                        *)
EXTENDS Retain, Shapes, Json
CONSTANTS N, MaxKids, WithOutside, KindShifts
Ids == 0..(N-1)
KidSeqs == UNION {[1..k -> Ids] : k \in 0..MaxKids}
\* leaf nodes take their definition from a second family as well (salt = 1): unit type, empty enum, u256
\* nodes with references rotate through the definition kinds of their arity as well (shift \in KindShifts, one per
\* registry): without it the kind of a node is a function of (node, children), and e.g. a tuple whose two members are
\* the same type only ever occurred ABOVE that type's id, where an id left unrewritten still resolves
Sel(t, ks, salt, shift) == t + (IF Len(ks) >= 1 THEN ks[1] + shift ELSE 0) + (IF Len(ks) >= 2 THEN 2 * ks[2] ELSE 0) + (IF Len(ks) = 0 THEN 3 * salt ELSE 0)
RegOfS(kids, salt, shift) == [p \in 1..N |-> WithId(ShapeBody(p-1, kids[p-1], Sel(p-1, kids[p-1], salt, shift)), p-1)]
RegOf(kids) == RegOfS(kids, 0, 0)
Init == \E kids \in [Ids -> KidSeqs] : \E salt \in 0..1 : \E shift \in KindShifts : (salt = 1 => \E i \in Ids : kids[i] = <<>>) /\ (shift # 0 => \E i \in Ids : kids[i] # <<>>) /\ \E k \in SUBSET (Ids \cup (IF WithOutside THEN {N} ELSE {})) : TInitWith(RegOfS(kids, salt, shift), k)
Spec == Init /\ [][RNext]_tvars /\ WF_tvars(RNext)
Pairs(m) == SetToSeq({<<i, m[i]>> : i \in DOMAIN m})
Emit == Done => PrintT(<<"REPLAY", ToJson([old |-> orig, keep |-> [i \in 1..N |-> (i-1) \in keep], outside |-> N \in keep, map |-> Pairs(rmap), new |-> newT])>>)
=============================================================================
