------------------------------ MODULE Surface ------------------------------
(***************************************************************************)
(* The rest of the public surface of the portable data model, as           *)
(* equations over the neutral registry form of SITypes (specification      *)
(* growth beyond the twenty listed properties; checked by the extension    *)
(* check X01, which is not a property verdict):                            *)
(*                                                                         *)
(*  Getters     every (deprecated) accessor returns the public field it is  *)
(*              named after: the registry read through accessors only is   *)
(*              the registry read through fields only                       *)
(*  Paths       is_empty, ident (last segment), namespace (all but the     *)
(*              last), Display = segments joined by "::"                    *)
(*  Resolve     resolve(i) is the body at POSITION i (whatever id it        *)
(*              carries), nothing beyond the end                            *)
(*  FromDef     Type::from(definition) for sequence / array / tuple /       *)
(*              primitive / compact / bit sequence, and Type::from((path,   *)
(*              params, definition, docs)) for composite / variant: empty   *)
(*              path, no parameters, no docs, that definition               *)
(*  NewEntry    PortableType::new(id, ty) carries exactly id and ty         *)
(*  Ctors       a registry assembled through the public constructors only   *)
(*              (Type::new, Field::new, Variant::new, TypeDef*::new,        *)
(*              TypeParameter::new_portable, Path::from_segments_unchecked) *)
(*              reads back as exactly the arguments given                   *)
(*  Misc        TypeDefTuple::unit() is the tuple without members and       *)
(*              registers nothing; Registry::default() is empty;            *)
(*              Field::builder() builds what Field::new builds; Debug of a  *)
(*              MetaType is Debug of the TypeId of its identity             *)
(*                                                                         *)
(* Strings are sequences of UTF-8 bytes, numbers 4 little-endian bytes     *)
(* (the wide projection).                                                  *)
(***************************************************************************)
EXTENDS Naturals, Sequences, FiniteSets, SequencesExt, TLC
RECURSIVE JoinSegs(_)
JoinSegs(ss) == IF ss = <<>> THEN <<>> ELSE IF Len(ss) = 1 THEN ss[1] ELSE ss[1] \o <<58, 58>> \o JoinSegs(Tail(ss))
PathOK(p) ==
  /\ p.empty = (p.segs = <<>>)
  /\ p.ident = (IF p.segs = <<>> THEN <<>> ELSE <<p.segs[Len(p.segs)]>>)
  /\ p.namespace = (IF p.segs = <<>> THEN <<>> ELSE SubSeq(p.segs, 1, Len(p.segs) - 1))
  /\ p.display = JoinSegs(p.segs)
  /\ p.segs_getter = p.segs
Body(e) == [path |-> e.path, params |-> e.params, def |-> e.def, docs |-> e.docs]
ResolveOK(reg, probes) ==
  \A k \in 1..Len(probes) :
     probes[k].got = (IF probes[k].i < Len(reg) THEN <<Body(reg[probes[k].i + 1])>> ELSE <<>>)
FromDefOK(x) == x.ty = [path |-> <<>>, params |-> <<>>, def |-> x.def, docs |-> <<>>]
MiscOK(m) == /\ m.unit = [tag |-> "tuple", tys |-> <<>>] /\ m.default_len = 0 /\ m.after_unit = 0
             /\ m.field_builder = TRUE /\ m.meta_debug = TRUE
SurfaceOK(e) ==
  /\ e.reg = e.src                                   \* Ctors
  /\ MiscOK(e.misc)
  /\ e.get = e.reg                                   \* Getters (includes NewEntry: the registry was built by PortableType::new)
  /\ \A k \in 1..Len(e.paths) : PathOK(e.paths[k])
  /\ ResolveOK(e.reg, e.probes)
  /\ \A k \in 1..Len(e.fromdef) : FromDefOK(e.fromdef[k])
=============================================================================
