INIT Init
NEXT Stutter
INVARIANT EmitConfigs
CHECK_DEADLOCK FALSE
