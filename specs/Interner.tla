------------------------------ MODULE Interner ------------------------------
(***************************************************************************)
(* src/interner.rs: Interner<T> = { map: BTreeMap<T, usize>, vec: Vec<T> } *)
(* One action per public method.  `ret` is the observable result of the    *)
(* last call.  The abstract object the property names is a duplicate-free  *)
(* list: `ivec`.  `imap` is the implementation's inverse index; the        *)
(* invariant Bijective says the two never disagree.                        *)
(***************************************************************************)
EXTENDS Naturals, Sequences, FiniteSets, TLC
VARIABLES imap,   \* function from the set of interned values to 0-based index
          ivec,   \* sequence of interned values
          ret
ivars == <<imap, ivec, ret>>

IInit == imap = <<>> /\ ivec = <<>> /\ ret = <<"init">>

Known(v) == v \in DOMAIN imap
\* What a duplicate-free list answers (defined from ivec alone):
InList(v) == \E i \in 1..Len(ivec) : ivec[i] = v
FirstIdx(v) == (CHOOSE i \in 1..Len(ivec) : ivec[i] = v /\ \A j \in 1..(i-1) : ivec[j] # v) - 1

\* intern_or_get(v) -> (inserted, symbol)
Intern(v) ==
  IF Known(v)
  THEN /\ ret' = <<"intern", v, FALSE, imap[v]>>
       /\ UNCHANGED <<imap, ivec>>
  ELSE /\ imap' = (v :> Len(ivec)) @@ imap
       /\ ivec' = Append(ivec, v)
       /\ ret' = <<"intern", v, TRUE, Len(ivec)>>
\* get(&v) -> Option<Symbol>
Get(v) == /\ ret' = <<"get", v, IF Known(v) THEN <<imap[v]>> ELSE <<>>>>
          /\ UNCHANGED <<imap, ivec>>
\* resolve(sym) -> Option<&T>
Resolve(i) == /\ ret' = <<"resolve", i, IF i < Len(ivec) THEN <<ivec[i+1]>> ELSE <<>>>>
              /\ UNCHANGED <<imap, ivec>>
\* elements() -> &[T]
Elements == /\ ret' = <<"elements", ivec>>
            /\ UNCHANGED <<imap, ivec>>

\* PortableRegistryBuilder (src/portable.rs) = Interner<Type<PortableForm>>
BRegister(v) ==
  IF Known(v)
  THEN /\ ret' = <<"register", v, imap[v]>> /\ UNCHANGED <<imap, ivec>>
  ELSE /\ imap' = (v :> Len(ivec)) @@ imap /\ ivec' = Append(ivec, v)
       /\ ret' = <<"register", v, Len(ivec)>>
BNextId == ret' = <<"next_type_id", Len(ivec)>> /\ UNCHANGED <<imap, ivec>>
BGet(i) == /\ ret' = <<"bget", i, IF i < Len(ivec) THEN <<ivec[i+1]>> ELSE <<>>>>
           /\ UNCHANGED <<imap, ivec>>
BFinish == /\ ret' = <<"finish", [p \in 1..Len(ivec) |-> <<p-1, ivec[p]>>]>>
           /\ UNCHANGED <<imap, ivec>>

(* Invariants *)
Bijective == /\ DOMAIN imap = {ivec[i] : i \in 1..Len(ivec)}
             /\ \A i \in 1..Len(ivec) : imap[ivec[i]] = i - 1
             /\ \A i, j \in 1..Len(ivec) : ivec[i] = ivec[j] => i = j
\* the answers of the implementation-shaped state equal those of the list
ListAnswers == \A v \in DOMAIN imap : InList(v) /\ FirstIdx(v) = imap[v]
AppendOnly == [][\E k \in 0..1 : Len(ivec') = Len(ivec) + k /\ SubSeq(ivec', 1, Len(ivec)) = ivec]_ivars
=============================================================================
