---------------------------- MODULE Trace_Derive ----------------------------
(***************************************************************************)
(* Validation of what generated programs observed about derived TypeInfo.   *)
(* Events: Decls (the abstract declarations of the program), Derived (the   *)
(* Type the derive reports + TypeIds of the declared field/parameter types),*)
(* Type (portable registry containing the type), Value (value tree from a   *)
(* generated oracle + real SCALE bytes from derived Encode).                *)
(*  C09  reported definition = Derive!Meta(declaration) - variant indices   *)
(*       are not judged here                                                *)
(*  C03  every value decodes from the registry description alone to the     *)
(*       same variant / field names / order / leaves; reported variant      *)
(*       indices follow the codec's rule                                    *)
(*  C17  no PhantomData member is listed                                    *)
(*  C02  the registry containing the derived type is the faithful image of  *)
(*       the compile-time graph reachable from it (`Faithful` events)       *)
(***************************************************************************)
EXTENDS Derive, ScaleValue, SITypes, Json, IOUtils
CONSTANT Check
Rec == ndJsonDeserialize(IOEnv.TRACE)
VARIABLES l, decls, cur
vars == <<l, decls, cur>>
Init == l = 1 /\ decls = <<>> /\ cur = <<>>
DeclOf(id) == decls[CHOOSE i \in 1..Len(decls) : decls[i].id = id]
EnvOf(e, d) == [modpath |-> e.modpath \o <<"d" \o ToString(d.id)>> \o d.mods, docs_feature |-> e.docs_feature, ftids |-> e.ftids, ptids |-> e.ptids]
NoPhantomIn(fs, ph) == \A i \in 1..Len(fs) : fs[i].ty # ph
NoPhantomObs(obs, ph) == IF obs.def.tag = "composite" THEN NoPhantomIn(obs.def.fields, ph)
                         ELSE \A j \in 1..Len(obs.def.variants) : NoPhantomIn(obs.def.variants[j].fields, ph)
IndicesOK(d, obs) == d.kind = "enum" => LET kv == KeptVariants(d) IN
    /\ Len(obs.def.variants) = Len(kv)
    /\ \A j \in 1..Len(kv) : obs.def.variants[j].index = ExpIndex(d, j)
\* a reported definition with every type reference replaced by 0
BlankRefF(fs) == [k \in 1..Len(fs) |-> [fs[k] EXCEPT !.ty = 0]]
BlankRefs(o) == [o EXCEPT !.params = [k \in 1..Len(@) |-> [@[k] EXCEPT !.ty = IF @ = <<>> THEN <<>> ELSE <<0>>]],
                          !.def = CASE @.tag = "composite" -> [@ EXCEPT !.fields = BlankRefF(@)]
                                    [] @.tag = "variant" -> [@ EXCEPT !.variants = [k \in 1..Len(@) |-> [@[k] EXCEPT !.fields = BlankRefF(@)]]]
                                    [] OTHER -> @]
AcceptDerived(e) ==
  LET d == DeclOf(e.id) IN
  CASE Check = "C09" -> IF BlankIdx(e.obs) = Meta(d, EnvOf(e, d), FALSE)
                             \* ... and in the PORTABLE form too a parameter is without a type exactly when it is skipped
                             /\ e.pparams = [i \in 1..Len(d.tparams) |-> <<d.tparams[i].name, ~d.tparams[i].skip>>]
                             \* ... and carries the same path, names, type names, indices and docs at every level
                             /\ e.pview = BlankRefs(e.obs) THEN TRUE
                        ELSE PrintT(<<"EXPECTED", ToJson(Meta(d, EnvOf(e, d), FALSE)), "PORTABLE PARAMETERS", e.pparams>>) /\ FALSE
    [] Check = "C03" -> IndicesOK(d, e.obs)
    [] Check = "C17" -> NoPhantomObs(e.obs, e.phantom)
    [] OTHER -> TRUE
AcceptValue(v) == Check = "C03" => DecodesTo(cur.reg, cur.ty, v.bytes, v.tree)
Next == /\ l <= Len(Rec)
        /\ LET e == Rec[l] IN
           CASE e.ev = "Decls" -> decls' = e.decls /\ cur' = <<>>
             [] e.ev = "Derived" -> AcceptDerived(e) /\ UNCHANGED <<decls, cur>>
             [] e.ev = "Type" -> cur' = e /\ decls' = decls
             [] e.ev = "Value" -> AcceptValue(e) /\ UNCHANGED <<decls, cur>>
             [] e.ev = "Faithful" -> (Check = "C02" => FaithfulOK(e.nodes, e.types)) /\ UNCHANGED <<decls, cur>>
        /\ l' = l + 1
Spec == Init /\ [][Next]_vars
Track == TLCSet(1, l)
Accepted == IF TLCGet(1) = Len(Rec) + 1 THEN TRUE
            ELSE Print(<<"REJECTED at event", TLCGet(1), Rec[TLCGet(1)].ev>>, FALSE)
View == l
=============================================================================
