"""Declarations for #[derive(TypeInfo)] in the abstract syntax of specs/Derive.tla: concretisation of the
TLC-enumerated feature plans, a seeded random generator, and the Rust renderer (with generated value
oracles for C03)."""
import json, random

U8 = {"c": "prim", "n": "u8", "a": []}; U16 = {"c": "prim", "n": "u16", "a": []}; U32 = {"c": "prim", "n": "u32", "a": []}
U64 = {"c": "prim", "n": "u64", "a": []}; I64 = {"c": "prim", "n": "i64", "a": []}; U128 = {"c": "prim", "n": "u128", "a": []}
BOOL = {"c": "prim", "n": "bool", "a": []}; STR = {"c": "string", "n": "", "a": []}
SELF = {"c": "self", "n": "", "a": []}
def P(n): return {"c": "param", "n": n, "a": []}
def T1(c, a): return {"c": c, "n": "", "a": [a]}
def T2(c, a, b): return {"c": c, "n": "", "a": [a, b]}
def vec(a): return T1("vec", a)
def opt(a): return T1("opt", a)
def box(a): return T1("box", a)
def ph(a): return T1("phantom", a)
def tup(*a): return {"c": "tuple", "n": "", "a": list(a)}
def arr(a, n): return {"c": "array", "n": n, "a": [a]}
def arrc(a, n): return {"c": "arrayc", "n": n, "a": [a]}     # length is a const generic parameter
def ref(a): return {"c": "ref", "n": "a", "a": [a]}

ENCODED_AS = '<u32 as scale::HasCompact>::Type'
# a local type of the generated program that is written to the wire AS an array or AS a tuple (encoded_as types
# that are not type paths); see VALUE_HEADER
RGB = {"c": "prim", "n": "crate::Rgb", "a": []}
# a type that reaches the derive through a `$t:ty` fragment of macro_rules! (a None-delimited token group): u8
MT = {"c": "macrot", "n": "", "a": []}
IN_MACRO = [False]
NONPATH_AS = {"[u8; 3]": "bytes", "(u16, u8)": "pair"}

def doc(line):
    n = len(line) - len(line.lstrip(" "))
    return {"sp": n, "text": line.lstrip(" ")}

def field(name, ty, skip=False, compact=False, rename=None, docs=(), encoded_as=None):
    """encoded_as: None or the Rust text of the type the member is encoded as"""
    return {"name": [name] if name else [], "ty": ty, "skip": skip, "compact": compact, "rename": [rename] if rename else [],
            "docs": [doc(x) for x in docs], "encoded_as": [encoded_as] if encoded_as else []}

def variant(name, shape="unit", fields=(), cindex=None, discr=None, skip=False, docs=()):
    return {"name": name, "shape": shape, "fields": list(fields), "cindex": [cindex] if cindex is not None else [],
            "discr": [discr] if discr is not None else [], "skip": skip, "docs": [doc(x) for x in docs]}

def decl(kind, name, shape="named", fields=(), variants=(), tparams=(), lifetimes=(), capture="absent", replace=(), docs=(), mods=(), inst=(), capture_text=None, consts=(), doc_attr=False, combined=False, macro_ty=False):
    return {"macro_ty": macro_ty, "consts": list(consts), "doc_attr": doc_attr, "combined": combined, "doc_noise": False, "kind": kind, "name": name, "shape": shape, "fields": list(fields), "variants": list(variants),
            "tparams": [{"name": n, "skip": s} for n, s in tparams], "lifetimes": list(lifetimes), "capture": capture,
            "capture_text": capture_text or capture, "replace": [list(r) for r in replace], "docs": [doc(x) for x in docs], "mods": list(mods), "inst": list(inst)}

# ------------------------------------------------------------------------------------------------
# concretisation of a TLC feature plan: [shape, features]

def from_plan(shape, feats, i, for_codec=True):
    """shape in struct_named/struct_unnamed/struct_unit/enum; feats: set of feature names (specs/MC_Derive.tla)"""
    F = set(feats)
    named = shape != "struct_unnamed"
    nm = (lambda n: n) if named else (lambda n: None)
    tparams, inst, lifetimes = [], [], []
    if "generic" in F: tparams.append(("T", False)); inst.append(U16)
    if "skipped_param" in F: tparams.append(("U", True)); inst.append(BOOL)
    if "lifetime" in F: lifetimes.append("a")
    if "phantom_arg" in F: tparams.append(("W", False)); inst.append(ph(U8))      # a parameter INSTANTIATED with PhantomData: not a skipped parameter
    fs = [field(nm("a"), U8, docs=([" field doc", "no space", "   three spaces", "", " say \"hi\" {x} \\n 'q'"] if "docs" in F else ()))]
    fs.append(field(nm("b"), vec(opt(STR)), rename=("bee" if "rename" in F and named else None)))
    if "skip_field" in F: fs.insert(1, field(nm("s"), BOOL, skip=True))
    if "compact" in F: fs.append(field(nm("c"), U64, compact=True))
    if "phantom" in F:
        m = ph(P("U") if "skipped_param" in F else U8)
        fs.insert(0, field(nm("p"), m))
        # markers INSIDE tuple members, at the front / in the middle / twice, each followed by members of different widths
        fs.append(field(nm("pt"), tup(U8, m, U16, U32)))
        fs.append(field(nm("pu"), opt(tup(m, BOOL, U64, STR, m, U16))))
        # containers whose EVERY argument is a marker are no markers: they are written (presence byte, length prefix) and listed
        fs.append(field(nm("po"), opt(m))); fs.append(field(nm("pv"), vec(m))); fs.append(field(nm("pq"), T2("result", m, ph(BOOL))))
    if "generic" in F: fs.append(field(nm("t"), tup(P("T"), arr(P("T"), 3))))
    if "phantom_arg" in F: fs.append(field(nm("w"), vec(P("W"))))
    if "skipped_param" in F and "phantom" not in F: fs.append(field(nm("u"), ph(P("U"))))
    if "lifetime" in F: fs.append(field(nm("r"), ref(vec(P("T")) if "generic" in F else U32)))
    if "selfref" in F: fs.append(field(nm("k"), vec(SELF))); fs.append(field(nm("o"), opt(box(SELF))))
    if "nested" in F: fs.append(field(nm("n"), T2("btreemap", U8, T2("result", tup(), vec(tup(U8, BOOL))))))
    if "encoded_as" in F:
        fs.append(field(nm("e"), U32, encoded_as=ENCODED_AS))
        if for_codec:            # encoded-as types that are no type paths: an array and a tuple
            fs.append(field(nm("e3"), RGB, encoded_as="[u8; 3]"))
            fs.append(field(nm("e4"), RGB, encoded_as="(u16, u8)"))
        if not for_codec:        # TypeInfo alone does not need the codec impls: any declared type, any described type
            fs.append(field(nm("e2"), ref(vec(U8)) if "lifetime" in F else vec(P("T")) if "generic" in F else tup(U8, BOOL), encoded_as="u64"))
    if "raw_ident" in F and named: fs.append(field("r#type", U8))
    if "macro_ty" in F:
        fs.append(field(nm("mt"), MT)); fs.append(field(nm("mv"), vec(MT), docs=([" through a macro"] if "docs" in F else ()))); fs.append(field(nm("mo"), opt(tup(MT, arr(MT, 2)))))
    consts = ["N"] if "const_generic" in F and shape != "struct_unit" else []
    if consts: fs.append(field(nm("cn"), arrc(U16, "N")))
    docs = [" Type doc", "  second line", "third"] if "docs" in F else []
    capture, ctext = "absent", None
    if "capture_always" in F: capture, ctext = "always", "Always"
    elif "capture_never" in F: capture, ctext = "never", "never"
    elif "capture_default" in F: capture, ctext = "default", "DEFAULT"
    mods = ["m1", "m2"] if "modules" in F else []
    name = ("S%d" if shape != "enum" else "E%d") % i
    if "raw_ident" in F:      # a module and a type written as raw identifiers: the marker is part of the path segment
        mods = mods + ["r#mod"]; name = "r#" + name
    replace = []
    if "replace" in F:
        # overlapping search keys (first match wins), the type's own identifier, and a CHAIN: an earlier
        # replacement text that is a later search text must not be substituted again
        replace = [["m1", "m2"], ["m2", "zz"], ["m2", "yy"], [name, "Renamed"]] if mods else [["d%d" % i, name], [name, "Renamed"], ["zzz", "q"]]
        if i % 3 == 1:      # different segments replaced by the SAME text (entries are told apart by what they search for)
            replace = [["m1", "same"], ["m2", "same"], [name, "same"]] if mods else [["d%d" % i, "same"], [name, "same"]]
    style = dict(doc_attr="doc_attr_form" in F, combined="combined_attrs" in F, macro_ty="macro_ty" in F and shape != "struct_unit")
    noise = "docs" in F and "rename" in F
    if shape == "struct_unit":
        dd = decl("struct", name, "unit", (), (), tparams=[], lifetimes=[], capture=capture, capture_text=ctext, replace=replace, docs=docs, mods=mods, inst=[], **style)
        dd["crate_path"] = "crate_path" in F; dd["rev_attrs"] = "rev_attrs" in F
        if "foreign_attrs" in F: dd["item_attrs"] = ["#[repr(C)]", "#[allow(dead_code)]", "#[must_use]"]
        return dd
    if shape != "enum":
        dd = decl("struct", name, "named" if named else "unnamed", fs, (), tparams, lifetimes, capture, replace, docs, mods, inst, ctext, consts=consts, **style)
        dd["doc_noise"] = noise; dd["crate_path"] = "crate_path" in F; dd["rev_attrs"] = "rev_attrs" in F
        if "foreign_attrs" in F: dd["item_attrs"] = ["#[repr(C)]", "#[allow(dead_code)]", "#[non_exhaustive]"]
        return dd
    unn = [dict(f, name=[], rename=[]) for f in fs]
    vs = [variant("A", docs=([" variant doc"] if "docs" in F else ())),
          variant("B", "unnamed", unn[:2]),
          variant("C", "named", fs)]
    if "skip_variant" in F:
        vs.insert(1, variant("S", "unit", skip=True)); vs.insert(0, variant("S0", "unnamed", [field(None, U8)], skip=True))
        if "codec_index" in F:      # a retired variant: reserved index AND skip, as two attributes in both orders
            vs.insert(2, variant("R1", "unit", skip=True, cindex=90)); vs.insert(3, variant("R2", "unit", skip=True, cindex=91))
    if "codec_index" in F: vs[-1]["cindex"] = [200]; vs.append(variant("D", "unit", cindex=7))
    if "discriminant" in F:
        # explicit discriminants on a unit variant AND on a data variant (allowed with a primitive repr)
        vs.append(variant("X", "unit", discr=42)); vs.append(variant("Y", "unit")); vs.append(variant("W", "unit", discr=16)); vs.append(variant("W2", "unit", discr=64))
        next(v for v in vs if v["name"] == "B")["discr"] = [33]
    if "codec_index" in F and "discriminant" in F: vs.append(variant("Z", "unit", cindex=9, discr=77))
    dd = decl("enum", name, "named", (), vs, tparams, lifetimes, capture, replace, docs, mods, inst, ctext, consts=consts, **style)
    dd["doc_noise"] = noise; dd["crate_path"] = "crate_path" in F; dd["rev_attrs"] = "rev_attrs" in F
    if "foreign_attrs" in F: dd["item_attrs"] = ["#[allow(dead_code)]", "#[non_exhaustive]"]      # (an enum with data variants and discriminants already carries #[repr(u8)])
    return dd

def newtype_decls(i0):
    """single-member structs marked #[repr(transparent)] (named and unnamed member, one generic): the layout attribute
    says nothing about type information - the newtype is a type of its own, next to its member type"""
    out = []
    for k, (named, ty, tps, inst) in enumerate([(False, U32, [], []), (True, STR, [], []), (False, vec(P("T")), [("T", False)], [U16])]):
        d = decl("struct", "N%d" % (i0 + k), "named" if named else "unnamed", [field("inner" if named else None, ty, docs=[" the only member"])], (), tps, [], "absent", (), [" a newtype"], [], inst)
        d["item_attrs"] = ["#[repr(transparent)]"] if k != 1 else ["#[allow(dead_code)]", "#[repr(transparent)]"]
        d["pair_member"] = True
        out.append(d)
    return out

# ------------------------------------------------------------------------------------------------
# seeded random declarations

def rand_ty(r, depth, params, allow_self, top=True):
    """PhantomData only as a whole member type or as a tuple element (where the library erases it)"""
    leaves = [U8, U16, U32, U64, I64, U128, BOOL, STR] + [P(p) for p in params]
    if depth <= 0 or r.random() < 0.35: return r.choice(leaves)
    k = r.randrange(10)
    if k == 0: return vec(rand_ty(r, depth - 1, params, False, False))
    if k == 1: return opt(rand_ty(r, depth - 1, params, False, False))
    if k == 2: return box(rand_ty(r, depth - 1, params, False, top))
    if k == 3: return tup(*[(ph(r.choice(leaves)) if r.random() < 0.2 else rand_ty(r, depth - 1, params, False, False)) for _ in range(r.choice([0, 1, 2, 3, 3, 4, 5, 6]))])
    if k == 4: return arr(rand_ty(r, depth - 1, params, False, False), r.choice([0, 1, 2, 5]))
    if k == 5: return T2("result", rand_ty(r, depth - 1, params, False, False), rand_ty(r, depth - 1, params, False, False))
    if k == 6: return T2("btreemap", r.choice([U8, U32, STR]), rand_ty(r, depth - 1, params, False, False))
    if k == 7 and top: return ph(r.choice(leaves))
    if k == 8 and allow_self: return r.choice([vec(SELF), opt(box(SELF))])
    return r.choice(leaves)

def rand_fields(r, named, params, skipped, allow_self, lifetimes, for_codec=True):
    fs = []
    for j in range(r.randrange(0, 5)):
        ty = rand_ty(r, 2, params, allow_self)
        compact = False
        if r.random() < 0.15: ty, compact = r.choice([U8, U16, U32, U64, U128]), True
        if lifetimes and not compact and r.random() < 0.25: ty = ref(ty)
        skip = not compact and r.random() < 0.12 and not mentions(ty, "ref") and not mentions(ty, "result") and not mentions(ty, "self")
        f = field(("f%d" % j) if named else None, ty, skip=skip, compact=compact,
                  rename=("ren%d" % j if named and r.random() < 0.15 else None),
                  docs=([" fdoc %d" % j] if r.random() < 0.3 else ()))
        if not for_codec and not skip and not compact and not is_phantom(ty) and r.random() < 0.1:
            f["encoded_as"] = [r.choice(["u64", "scale::Compact<u32>", "Vec<bool>", "[u8; 3]", "(u16, u8)", "&'static str", "[bool]", "(u8)"])]
        fs.append(f)
        if for_codec and r.random() < 0.06:
            fs.append(field(("g%d" % j) if named else None, RGB, encoded_as=r.choice(sorted(NONPATH_AS))))
    for s in skipped:
        fs.append(field(("ph_%s" % s) if named else None, ph(P(s))))
    return fs

def rand_decl(r, i, for_codec=True):
    d = rand_decl0(r, i, for_codec)
    d["doc_attr"] = r.random() < 0.2
    d["combined"] = r.random() < 0.3
    d["doc_noise"] = r.random() < 0.3
    d["crate_path"] = r.random() < 0.12
    d["rev_attrs"] = r.random() < 0.25
    if r.random() < 0.12 and d["shape"] != "unit" and (d["kind"] == "struct" or d["variants"]):
        named = d["shape"] == "named"
        tgt = d["fields"] if d["kind"] == "struct" else None
        if tgt is not None:
            tgt.append(field("mt" if named else None, MT)); tgt.append(field("mv" if named else None, T2("result", vec(MT), MT)))
            d["macro_ty"] = True
    return d

def rand_decl0(r, i, for_codec=True):
    params = [p for p in ["T", "V"] if r.random() < 0.35]
    skipped = ["U"] if r.random() < 0.25 else []
    lifetimes = ["a"] if r.random() < 0.2 else []
    tparams = [(p, False) for p in params] + [(s, True) for s in skipped]
    inst = [r.choice([U8, U32, STR, BOOL, vec(U16)]) for _ in params] + [BOOL for _ in skipped]
    cap = r.choice(["absent"] * 3 + ["always", "never", "default"])
    docs = [r.choice([" doc", "  two spaces", "nospace", " trailing  "]) for _ in range(r.randrange(0, 3))]
    mods = ["mm"] * (r.random() < 0.3) + ["nn"] * (r.random() < 0.2) + ["r#mod"] * (r.random() < 0.1)
    kind = r.choice(["struct", "struct", "enum"])
    name = ("R%d" if kind == "struct" else "Q%d") % i
    replace = []
    if r.random() < 0.3: replace = r.choice([[[name, "Other"]], [["mm", "xx"], ["mm", "yy"]], [["nn", "oo"], [name, "N2"], ["zzz", "q"]],
                                               [["mm", "nn"], ["nn", "mm"]], [["mm", name], [name, "Last"]],
                                               [["mm", "same"], ["nn", "same"], [name, "same"]], [[name, "dup"], ["mm", "dup"]]])
    if kind == "struct":
        shape = r.choice(["named", "named", "unnamed", "unit"])
        if shape == "unit":
            return decl("struct", name, "unit", (), (), [], [], cap, replace, docs, mods, [])
        fs = rand_fields(r, shape == "named", params, skipped, True, lifetimes, for_codec)
        if lifetimes and not any(has_ref(f["ty"]) for f in fs): fs.append(field("lt" if shape == "named" else None, ref(U8)))
        for p in params:
            if not any(uses_param(f["ty"], p) for f in fs): fs.append(field(("use_%s" % p) if shape == "named" else None, P(p)))
        return decl("struct", name, shape, fs, (), tparams, lifetimes, cap, replace, docs, mods, inst)
    vs, used = [], set()
    nv = r.randrange(0, 6)
    for j in range(nv):
        shape = r.choice(["unit", "unit", "named", "unnamed"])
        fs = rand_fields(r, shape == "named", params, [], True, lifetimes, for_codec) if shape != "unit" else []
        v = variant("V%d" % j, shape, fs, skip=r.random() < 0.15, docs=([" vdoc"] if r.random() < 0.3 else ()))
        vs.append(v)
    # indices: keep them unique the way codec requires (explicit values far from the positional ones)
    for j, v in enumerate(vs):
        x = r.random()
        if x < 0.2: v["cindex"] = [100 + j]
        elif x < 0.35: v["discr"] = [50 + 2 * j]          # also on data variants (#[repr(u8)] is emitted)
    if skipped or params or lifetimes:
        fs = [field(None, ph(P(p))) for p in params + skipped] + ([field(None, ref(U8))] if lifetimes else [])
        vs.append(variant("Carrier", "unnamed", fs))
    return decl("enum", name, "named", (), vs, tparams, lifetimes, cap, replace, docs, mods, inst)

def uses_param(t, p):
    """non-recursive use (outside the type's own name)"""
    if t["c"] == "self": return False
    return (t["c"] == "param" and t["n"] == p) or any(uses_param(x, p) for x in t["a"])
def has_ref(t):
    return t["c"] == "ref" or any(has_ref(x) for x in t["a"])
def mentions(t, c):
    return t["c"] == c or any(mentions(x, c) for x in t["a"])

# ------------------------------------------------------------------------------------------------
# rendering

def src(t, d, subst=None, static=False, selfpath=None):
    c = t["c"]; a = [src(x, d, subst, static, selfpath) for x in t["a"]]
    if c == "prim": return t["n"]
    if c == "macrot": return "$t" if IN_MACRO[0] else "u8"
    if c == "string": return "String"
    if c == "str": return "str"
    if c == "param": return subst[t["n"]] if subst else t["n"]
    if c == "vec": return "Vec<%s>" % a[0]
    if c == "opt": return "Option<%s>" % a[0]
    if c == "box": return "Box<%s>" % a[0]
    if c == "result": return "Result<%s, %s>" % (a[0], a[1])
    if c == "btreemap": return "BTreeMap<%s, %s>" % (a[0], a[1])
    if c == "tuple": return "(" + ", ".join(a) + (",)" if len(a) == 1 else ")")
    if c == "array": return "[%s; %d]" % (a[0], t["n"])
    if c == "arrayc": return "[%s; %s]" % (a[0], "3" if static and subst is not None else t["n"])
    if c == "ref": return "&'%s %s" % ("static" if static else t["n"], a[0])
    if c == "phantom": return "PhantomData<%s>" % a[0]
    if c == "assoc": return "%s::A" % t["n"]
    if c == "self":
        g = [("'static" if static else "'" + l) for l in d["lifetimes"]] + [(subst[p["name"]] if subst else p["name"]) for p in d["tparams"]] \
            + [("3" if subst is not None else c) for c in d.get("consts", [])]
        return (selfpath or d["name"]) + ("<" + ", ".join(g) + ">" if g else "")
    raise ValueError(c)

def lit(n, style):
    """integer literal forms the attribute parsers must all understand"""
    return [str(n), hex(n), "%du8" % n, "0b" + bin(n)[2:], ("%d_%d" % (n // 10, n % 10)) if n >= 10 else str(n)][style % 5]

def docs_src(ds, ind, attr_form=False):
    if attr_form:      # the desugared form of a doc comment
        return "".join('%s#[doc = %s]\n' % (ind, json.dumps(" " * x["sp"] + x["text"])) for x in ds)
    return "".join("%s///%s%s\n" % (ind, " " * x["sp"], x["text"]) for x in ds)


def field_src(f, d, ind, pub, with_codec):
    dsrc = docs_src(f["docs"], ind, d.get("doc_attr"))
    if f["docs"] and d.get("doc_noise"): dsrc += ind + "#[doc(hidden)]\n" + ind + "#[allow(dead_code)]\n"      # not doc lines
    a = []
    if f["skip"]: a.append(ind + "#[codec(skip)]\n")
    if f["compact"]: a.append(ind + "#[codec(compact)]\n")
    if f.get("encoded_as"): a.append(ind + '#[codec(encoded_as = "%s")]\n' % f["encoded_as"][0])
    if f["rename"]: a.append(ind + '#[scale_info(rename = "%s")]\n' % f["rename"][0])
    # rev_attrs: the member's attributes in the opposite order and BEFORE its doc lines
    s = ("".join(reversed(a)) + dsrc) if d.get("rev_attrs") else (dsrc + "".join(a))
    s += ind + ("pub " if pub else "") + (f["name"][0] + ": " if f["name"] else "") + src(f["ty"], d) + ",\n"
    return s

def body_src(shape, fields, d, ind, pub, with_codec):
    if shape == "unit": return ""
    inner = "".join(field_src(f, d, ind + "    ", pub, with_codec) for f in fields)
    return " {\n" + inner + ind + "}" if shape == "named" else "(\n" + inner + ind + ")"

def decl_src(d, with_codec):
    if not d.get("macro_ty"): return decl_src0(d, with_codec)
    IN_MACRO[0] = True
    try: body = decl_src0(d, with_codec)
    finally: IN_MACRO[0] = False
    # the whole declaration is stamped out by a macro; the member types mentioning $t arrive as token groups
    mk = d["name"].replace("#", "_")
    return "macro_rules! mk_%s { ($t:ty) => {\n%s} }\nmk_%s!(u8);\n" % (mk, body, mk)

def decl_src0(d, with_codec):
    s = docs_src(d["docs"], "", d.get("doc_attr"))
    # attributes of OTHER tools on the item (layout, lints, stability): the derive must not read anything into them
    ia = d.get("item_attrs", [])
    s += "".join(a + "\n" for a in ia[:1])
    s += "#[derive(TypeInfo%s)]\n" % (", Encode" if with_codec else "")
    s += "".join(a + "\n" for a in ia[1:])
    attrs = []
    skipped = [p["name"] for p in d["tparams"] if p["skip"]]
    if skipped: attrs.append("skip_type_params(" + ", ".join(skipped) + ")")
    if d["capture"] != "absent": attrs.append('capture_docs = "%s"' % d.get("capture_text", d["capture"]))
    groups = [list(attrs), ['replace_segment("%s", "%s")' % (a, b) for a, b in d["replace"]]]      # (the table's own order is semantics: first match wins)
    if d.get("rev_attrs"): groups = [groups[1], list(reversed(groups[0]))]                          # the KINDS of items in the opposite order
    attrs = groups[0] + groups[1]
    if d.get("crate_path"): attrs.insert(len(attrs) // 2, "crate = crate::reexp::si")      # metadata-neutral: where the emitted paths start
    if d.get("combined") and attrs:
        s += "#[scale_info(%s)]\n" % ", ".join(attrs)          # all items in one attribute
    else:
        for k, a in enumerate(attrs):            # split over several attributes, as users do
            s += "#[scale_info(%s)]\n" % a
    # (a const parameter carries a DEFAULT: the instantiation that names it and the one that relies on the default are
    # two types, see program())
    g = ["'" + l for l in d["lifetimes"]] + [p["name"] for p in d["tparams"]] + ["const %s: usize = 2" % c for c in d.get("consts", [])]
    gs = "<" + ", ".join(g) + ">" if g else ""
    if d["kind"] == "struct":
        s += "pub struct %s%s%s%s\n" % (d["name"], gs, body_src(d["shape"], d["fields"], d, "", True, with_codec), ";" if d["shape"] != "named" else "")
    else:
        if any(v["discr"] for v in d["variants"]): s += "#[repr(u8)]\n"
        s += "pub enum %s%s {\n" % (d["name"], gs)
        for v in d["variants"]:
            s += docs_src(v["docs"], "    ", d.get("doc_attr"))
            # several separate #[codec(..)] attributes on one variant, in both orders
            first_index = v["cindex"] and (len(v["name"]) + (v["cindex"][0] if v["cindex"] else 0)) % 2 == 1
            if v["cindex"] and first_index: s += "    #[codec(index = %s)]\n" % lit(v["cindex"][0], v["cindex"][0] + len(d["name"]))
            if v["skip"]: s += "    #[codec(skip)]\n"
            if v["cindex"] and not first_index: s += "    #[codec(index = %s)]\n" % lit(v["cindex"][0], v["cindex"][0] + len(d["name"]))
            s += "    " + v["name"] + body_src(v["shape"], v["fields"], d, "    ", False, with_codec) + (" = " + discr_src(v["discr"][0], v["discr"][0] + len(v["name"]) + len(d["name"])) if v["discr"] else "") + ",\n"
        s += "}\n"
    return s

def discr_src(val, k):
    """an explicit discriminant is an EXPRESSION: the same value written in several ways (the enum is #[repr(u8)])"""
    forms = ["%d" % val, "0x%X" % val, "(%d)" % val, "%d + %d" % (val - val // 3, val // 3), "0b%s" % bin(val)[2:], "%du8" % val, "%d_u8 | 0" % val,
             ("1 << %d" % (val.bit_length() - 1)) if val and val & (val - 1) == 0 else "%d * 1" % val]
    return forms[k % len(forms)]

def is_phantom(t):
    return t["c"] == "phantom" or (t["c"] in ("box", "ref") and is_phantom(t["a"][0]))
def kept(fs):
    return [f for f in fs if not f["skip"] and not is_phantom(f["ty"])]

def val_impl(d):
    """hand-derived value oracle for the declaration: random value + what the value IS (never looks at TypeInfo)"""
    g_decl = ", ".join(["%s: Val + Default" % p["name"] for p in d["tparams"]] + ["const %s: usize" % c for c in d.get("consts", [])])
    g_use = ", ".join(["'static"] * len(d["lifetimes"]) + [p["name"] for p in d["tparams"]] + list(d.get("consts", [])))
    head = "impl%s Val for %s%s {\n" % ("<" + g_decl + ">" if g_decl else "", d["name"], "<" + g_use + ">" if g_use else "")
    def sty(t): return src(t, d, None, True)
    def gen_fields(fs, named):
        parts = []
        for k, f in enumerate(fs):
            e = "Default::default()" if f["skip"] else "<%s as Val>::gen(rng, d + 1)" % sty(f["ty"])
            parts.append((f["name"][0] + ": " if named else "") + e)
        return ", ".join(parts)
    def tree_fields(fs, named, acc):
        items = []
        for k, f in enumerate(fs):
            if f["skip"] or is_phantom(f["ty"]): continue
            a = acc(k, f)
            if f.get("encoded_as") and f["encoded_as"][0] in NONPATH_AS:
                t = "Val::tree(&(%s).%s())" % (a, NONPATH_AS[f["encoded_as"][0]])
            elif f["compact"] or f.get("encoded_as"):
                t = 'json!({"k": "compact", "v": Val::tree(%s)})' % a
            else:
                t = "Val::tree(%s)" % a
            nm = (f["rename"][0] if f["rename"] else f["name"][0]) if f["name"] else None
            items.append('json!({"n": %s, "v": %s})' % ("[%s]" % json.dumps(nm) if nm else "[]", t))
        return "(vec![%s] as Vec<Value>)" % ", ".join(items)
    if d["kind"] == "struct":
        if d["shape"] == "unit":
            gen = d["name"]; tree = 'json!({"k": "composite", "f": []})'
        elif d["shape"] == "named":
            gen = "%s { %s }" % (d["name"], gen_fields(d["fields"], True))
            tree = 'json!({"k": "composite", "f": %s})' % tree_fields(d["fields"], True, lambda k, f: "&self." + f["name"][0])
        else:
            gen = "%s(%s)" % (d["name"], gen_fields(d["fields"], False))
            tree = 'json!({"k": "composite", "f": %s})' % tree_fields(d["fields"], False, lambda k, f: "&self.%d" % k)
        return head + "    fn gen(rng: &mut StdRng, d: u32) -> Self { %s }\n    fn tree(&self) -> Value { %s }\n}\n" % (gen, tree)
    live = [v for v in d["variants"] if not v["skip"]]
    if not live:
        return None      # no encodable value
    arms_g, arms_t = [], []
    for k, v in enumerate(live):
        if v["shape"] == "unit":
            ctor = "%s::%s" % (d["name"], v["name"]); pat = ctor; fl = "vec![] as Vec<Value>"
        elif v["shape"] == "named":
            ctor = "%s::%s { %s }" % (d["name"], v["name"], gen_fields(v["fields"], True))
            pat = "%s::%s { %s }" % (d["name"], v["name"], ", ".join("%s: x%d" % (f["name"][0], j) for j, f in enumerate(v["fields"])))
            fl = tree_fields(v["fields"], True, lambda j, f: "x%d" % j)
        else:
            ctor = "%s::%s(%s)" % (d["name"], v["name"], gen_fields(v["fields"], False))
            pat = "%s::%s(%s)" % (d["name"], v["name"], ", ".join("x%d" % j for j in range(len(v["fields"]))))
            fl = tree_fields(v["fields"], False, lambda j, f: "x%d" % j)
        arms_g.append("%d => %s" % (k, ctor))
        arms_t.append('%s => json!({"k": "variant", "name": %s, "f": %s})' % (pat, json.dumps(v["name"]), fl))
    # recursion through Vec<Self>/Option<Box<Self>> is bounded by the depth parameter of the container oracles
    gen = "match rng.gen_range(0..%d) { %s, _ => unreachable!() }" % (len(live), ", ".join(arms_g))
    tree = "match self { %s, _ => unreachable!() }" % ", ".join(arms_t)
    return head + "    fn gen(rng: &mut StdRng, d: u32) -> Self { %s }\n    #[allow(unreachable_patterns)]\n    fn tree(&self) -> Value { %s }\n}\n" % (gen, tree)

def needs_default_ok(d):
    return True

HEADER = """#![allow(dead_code, unused_imports, unused_variables, non_camel_case_types, non_snake_case)]
use vh::dv;
pub mod reexp { pub use ::scale_info as si; }      // the library under another path: #[scale_info(crate = crate::reexp::si)]
"""
RGB_DECL = "#[derive(scale_info::TypeInfo, Clone, Copy, Default)] pub struct Rgb(pub u32);\n"
VALUE_HEADER = """
impl Rgb {
    pub fn bytes(&self) -> [u8; 3] { let b = self.0.to_be_bytes(); [b[1], b[2], b[3]] }
    pub fn pair(&self) -> (u16, u8) { ((self.0 >> 8) as u16, self.0 as u8) }
}
#[derive(scale::Encode)] pub struct RgbBytes([u8; 3]);
impl<'a> From<&'a Rgb> for RgbBytes { fn from(r: &'a Rgb) -> Self { RgbBytes(r.bytes()) } }
impl<'a> scale::EncodeAsRef<'a, Rgb> for [u8; 3] { type RefType = RgbBytes; }
#[derive(scale::Encode)] pub struct RgbPair((u16, u8));
impl<'a> From<&'a Rgb> for RgbPair { fn from(r: &'a Rgb) -> Self { RgbPair(r.pair()) } }
impl<'a> scale::EncodeAsRef<'a, Rgb> for (u16, u8) { type RefType = RgbPair; }
impl vh::val::Val for Rgb {
    fn gen(rng: &mut rand::rngs::StdRng, _d: u32) -> Self { Rgb(rand::Rng::gen::<u32>(rng) & 0xff_ffff) }
    fn tree(&self) -> serde_json::Value { vh::val::unnamed(vec![vh::val::Val::tree(&self.0)]) }
}
"""
MODHEAD = "use scale_info::TypeInfo; use scale::Encode; use core::marker::PhantomData; use std::collections::BTreeMap; use vh::val::Val; use rand::{rngs::StdRng, Rng}; use serde_json::{json, Value};\n"

def full_path(d):
    return "::".join(["d%d" % d["id"]] + d["mods"] + [d["name"]])

def inst_ty(d):
    subst = {p["name"]: src(t, d, None, True).replace("PhantomData", "core::marker::PhantomData") for p, t in zip(d["tparams"], d["inst"])}
    inst = ["'static"] * len(d["lifetimes"]) + [subst[p["name"]] for p in d["tparams"]] + ["3"] * len(d.get("consts", []))
    return full_path(d) + ("<" + ", ".join(inst) + ">" if inst else ""), subst

def program(decls, seed, with_values, nvals):
    out = [HEADER + RGB_DECL + (VALUE_HEADER if with_values else "")]
    main = ["fn main() {", "    let mut o = dv::Out::new(%d, %d);" % (seed, nvals)]
    for d in decls:
        mods = ["d%d" % d["id"]] + d["mods"]
        for m in mods: out.append("pub mod %s {" % m)
        out.append(MODHEAD)
        out.append(decl_src(d, with_values))
        vi = val_impl(d) if with_values else None
        if vi: out.append(vi)
        for m in mods: out.append("}")
        ty, subst = inst_ty(d)
        full = full_path(d)
        def exp(f):
            if f["skip"]: return "String::new()"
            t = src(f["ty"], d, subst, True, selfpath=full).replace("core::marker::PhantomData", "PhantomData").replace("PhantomData", "core::marker::PhantomData").replace("BTreeMap", "std::collections::BTreeMap")
            if f["compact"]: t = "scale::Compact<%s>" % t
            if f.get("encoded_as"): t = f["encoded_as"][0]
            return "dv::t::<%s>()" % t
        groups = [d["fields"]] if d["kind"] == "struct" else [v["fields"] for v in d["variants"]]
        ft = "vec![" + ", ".join("vec![" + ", ".join(exp(f) for f in g) + "] as Vec<String>" for g in groups) + "]"
        pt = "vec![" + ", ".join("dv::t::<%s>()" % subst[p["name"]] for p in d["tparams"]) + "] as Vec<String>"
        main.append("    o.derived::<%s>(%d, %s, %s, module_path!());" % (ty, d["id"], ft, pt))
        if d.get("pair_member"):      # a newtype and its member type in one registry: two types, two entries
            f0 = d["fields"][0]
            main.append("    o.pair::<%s, %s>(%d);" % (ty, src(f0["ty"], d, subst, True, selfpath=full), d["id"]))
        if d.get("consts"):      # the same declaration instantiated with the default constant: another type, registered next to the first
            inst0 = ["'static"] * len(d["lifetimes"]) + [subst[p["name"]] for p in d["tparams"]]
            main.append("    o.pair::<%s, %s>(%d);" % (ty, full + ("<" + ", ".join(inst0) + ">" if inst0 else ""), d["id"]))
        if vi: main.append("    o.values::<%s>(%d);" % (ty, d["id"]))
    main += ["    o.done();", "}"]
    return "\n".join(out + main) + "\n"
