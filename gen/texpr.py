"""Render type-expression ASTs (specs/TypeExpr.tla) as Rust types and conformance programs."""
import json

INTS = ["u8", "u16", "u32", "u64", "u128", "i8", "i16", "i32", "i64", "i128"]
NONZERO = ["NonZeroU8", "NonZeroU16", "NonZeroU32", "NonZeroU64", "NonZeroU128", "NonZeroI8", "NonZeroI16", "NonZeroI32", "NonZeroI64", "NonZeroI128"]

def E(c, *a, n=0):
    return {"c": c, "a": list(a), "n": n}

def rust(e):
    c, a = e["c"], e["a"]
    if c in INTS or c in ("bool", "char", "str"): return c
    if c == "String": return "String"
    if c == "Local": return "L%d" % e["n"]
    if c == "Duration": return "core::time::Duration"
    if c in NONZERO: return "core::num::" + c
    if c in ("Lsb0", "Msb0"): return "bitvec::order::" + c
    if c == "Tuple": return "(" + "".join(rust(x) + ", " for x in a) + ")"
    if c == "Array": return "[%s; %d]" % (rust(a[0]), e["n"])
    if c == "Slice": return "[%s]" % rust(a[0])
    if c == "Ref": return "&'static " + rust(a[0])
    if c == "RefMut": return "&'static mut " + rust(a[0])
    if c == "Cow": return "std::borrow::Cow<'static, %s>" % rust(a[0])
    if c == "PhantomData": return "core::marker::PhantomData<%s>" % rust(a[0])
    if c == "Compact": return "scale::Compact<%s>" % rust(a[0])
    if c == "BitVec": return "bitvec::vec::BitVec<%s, %s>" % (rust(a[0]), rust(a[1]))
    full = {"Vec": "Vec", "VecDeque": "std::collections::VecDeque", "Option": "Option", "Result": "Result", "Box": "Box", "Rc": "std::rc::Rc",
            "Arc": "std::sync::Arc", "BTreeMap": "std::collections::BTreeMap", "BTreeSet": "std::collections::BTreeSet",
            "BinaryHeap": "std::collections::BinaryHeap", "Range": "core::ops::Range", "RangeInclusive": "core::ops::RangeInclusive"}[c]
    return "%s<%s>" % (full, ", ".join(rust(x) for x in a))

LOCAL = """    {
    #[derive(scale::Encode)] struct Local(%(t)s);
    impl scale_info::TypeInfo for Local { type Identity = Self; fn type_info() -> scale_info::Type {
        scale_info::Type::builder().path(scale_info::Path::new("Local", "user")).composite(scale_info::build::Fields::unnamed().field(|f| f.ty::<%(t)s>())) } }
    impl vh::val::Val for Local {
        fn gen(rng: &mut rand::rngs::StdRng, d: u32) -> Self { Local(vh::val::Val::gen(rng, d + 1)) }
        fn tree(&self) -> serde_json::Value { vh::val::unnamed(vec![vh::val::Val::tree(&self.0)]) } }
    type L%(k)d = Local;"""

def has(e, cs):
    return e["c"] in cs or any(has(x, cs) for x in e["a"])

def valued(e, top=True, in_tuple=False):
    """Is there a hand-written value oracle (vh::val::Val) and a codec impl for this expression?"""
    c, a = e["c"], e["a"]
    if c in INTS or c in ("bool", "String", "Duration") or c in NONZERO: return True
    if c in ("char", "str", "Slice", "Lsb0", "Msb0"): return False
    if c == "Local": return True
    if c == "PhantomData": return top or in_tuple       # zero bytes; erased from tuples
    if c == "Tuple": return len(a) <= 18 and all(valued(x, False, True) for x in a)
    if c == "Array": return valued(a[0], False)
    if c == "Compact": return a[0]["c"] in INTS[:5] or (a[0]["c"] == "Tuple" and not a[0]["a"])
    if c == "BitVec": return True
    if c in ("Box", "Ref"):
        if a[0]["c"] == "str": return True
        if a[0]["c"] == "Slice": return valued(a[0]["a"][0], False)
        return valued(a[0], False)
    if c in ("Rc", "Arc", "RefMut"): return a[0]["c"] not in ("str", "Slice") and valued(a[0], False)
    if c == "Cow":
        if a[0]["c"] == "str": return True
        if a[0]["c"] == "Slice": return valued(a[0]["a"][0], False) and not has(a[0], {"RefMut"})
        return valued(a[0], False) and not has(a[0], {"RefMut"})
    if c in ("BTreeMap", "BTreeSet", "BinaryHeap"):
        return all(valued(x, False) for x in a) and not has(a[0], {"Range", "RangeInclusive", "BinaryHeap"})
    if c in ("Vec", "VecDeque", "Option", "Result", "Range", "RangeInclusive"): return all(valued(x, False) for x in a)
    return False

def key(e):
    return json.dumps(e, sort_keys=True)

def program(exprs, seed, nvals):
    """exprs: list of ASTs, already closed under children. Expression 0 must be PhantomData<()>."""
    L = ["#![recursion_limit = \"1024\"]", "use vh::texpr::Ctx;", "fn main() {", "    let mut c = Ctx::new(%d, %d);" % (seed, nvals)]
    # two user types with the SAME name in two blocks of this one function (same type_name, same path, different identity)
    for k, inner in ((1, "u8"), (2, "u16")):
        L.append(LOCAL % {"k": k, "t": inner})
    for e in exprs:
        L.append("    c.expr::<%s>(r#\"%s\"#);" % (rust(e), json.dumps(e, separators=(",", ":"))))
    L.append("    c.finish_exprs();")
    for i, e in enumerate(exprs):
        if valued(e):
            L.append("    c.values::<%s>(%d);" % (rust(e), i))
    L += ["    c.done();", "    }}", "}"]
    return "\n".join(L) + "\n"

PHANTOM0 = E("PhantomData", E("Tuple"))

def chunk(cases, size):
    """cases: list of {"e":..., "closure":[...]} from TLC. Returns lists of ASTs, each closed, PHANTOM0 first."""
    chunks, cur, seen = [], [PHANTOM0], {key(PHANTOM0)}
    for cse in cases:
        add = [x for x in [cse["e"]] + cse["closure"] if key(x) not in seen]
        if len(cur) + len(add) > size and len(cur) > 1:
            chunks.append(cur); cur, seen = [PHANTOM0], {key(PHANTOM0)}
            add = [x for x in [cse["e"]] + cse["closure"] if key(x) not in seen]
        for x in add:
            if key(x) not in seen:
                seen.add(key(x)); cur.append(x)
    if len(cur) > 1: chunks.append(cur)
    return chunks
