"""Render the generic definitions of specs/MC_Generic.tla as stand-alone Rust programs that must compile."""
PRE = '''#![allow(dead_code, unused)]
use scale_info::TypeInfo; use core::marker::PhantomData;
pub trait Cfg { type A; }
pub struct R; impl Cfg for R { type A = u8; }            // no TypeInfo; its associated type has
impl Cfg for u8 { type A = u16; }
impl Cfg for i8 { type A = String; }                       // an associated type that is NOT HasCompact
pub struct NoInfo; pub struct NoInfoG<T>(T);
#[derive(Clone, Debug)] pub struct NC; #[derive(Clone, Debug)] pub struct RC; impl Cfg for RC { type A = u32; }
fn ok<T: TypeInfo + 'static>() { let t = T::type_info(); assert!(!t.path.segments.is_empty()); }
'''

def tmpl(t, p, selfty):
    name = selfty.split("<")[0]
    if t == "assocnamed": return "%s::%s" % (p, name)
    if t == "vecassocnamed": return "Vec<%s::%s>" % (p, name)
    return {"direct": "%s" % p, "vec": "Vec<%s>" % p, "opt": "Option<%s>" % p, "arr": "[%s; 2]" % p, "tup": "(%s, u8)" % p, "box": "Box<%s>" % p,
            "result": "Result<%s, String>" % p, "phantom": "PhantomData<%s>" % p, "assoc": "%s::A" % p, "qassoc": "<%s as Cfg>::A" % p,
            "vecassoc": "Vec<%s::A>" % p, "selfbox": "Box<%s>" % selfty, "selfvec": "Vec<%s>" % selfty, "selfkw": "Option<Box<Self>>",
            "selfmix": "Vec<(%s, %s)>" % (selfty, p), "selfassoc": "Vec<(%s, %s::A)>" % (selfty, p), "selfqassoc": "Vec<(%s, <%s as Cfg>::A)>" % (selfty, p), "selfpathq": "Vec<core::option::Option<std::boxed::Box<%s>>>" % selfty,
            "skipT": "#[codec(skip)] %s" % p, "skipNoInfoG": "#[codec(skip)] NoInfoG<%s>" % p, "skipNoInfo": "#[codec(skip)] NoInfo",
            "compactc": "#[codec(compact)] u32", "concrete": "u64", "compactp": "#[codec(compact)] %s" % p, "compactassoc": "#[codec(compact)] %s::A" % p}[t]

NEEDS_CFG = {"assoc", "qassoc", "vecassoc", "selfassoc", "selfqassoc", "compactassoc"}
NAMED = {"assocnamed", "vecassocnamed"}
MENTIONS = {"assocnamed", "vecassocnamed", "compactp", "compactassoc", "direct", "vec", "opt", "arr", "tup", "box", "result", "phantom", "assoc", "qassoc", "vecassoc", "selfmix", "selfassoc", "selfqassoc", "skipT", "skipNoInfoG"}

def program(g, i):
    name = "G%d" % i
    params = ["T", "U"][:g["np"]]
    M = set(g["mods"]); skip = set(g["skip"])
    lts = ["'a"] if "lifetime" in M else (["'a", "'b"] if "lifetime2" in M else [])
    constp = "const" in M
    gens = lts + params + (["N"] if constp else [])
    selfty = name + "<" + ", ".join(gens) + ">"
    fields = [(f["t"], f["p"]) for f in g["fields"]]
    cfg = {p: any(t in NEEDS_CFG and q == p for t, q in fields) for p in params}
    namedp = {p: any(t in NAMED and q == p for t, q in fields) for p in params}
    ftxt = [tmpl(t, p, selfty) for t, p in fields]
    split = "splitattr" in M
    vattr = {}
    if split:      # the skip attribute is the second of two #[codec(..)] attributes on the item
        for k, x in enumerate(ftxt):
            if x.startswith("#[codec(skip)] "):
                if "enum" in M:
                    vattr[k] = "#[codec(index = %d)] #[codec(skip)] " % (40 + k); ftxt[k] = x[len("#[codec(skip)] "):]
                else:
                    ftxt[k] = '#[codec(encoded_as = "u32")] ' + x
    if lts: ftxt.append("&'a %s" % ("u8" if params[0] in skip else params[0]))
    if len(lts) == 2: ftxt.append("&'b u16")
    if constp: ftxt.append("[u8; N]")
    for p in params:
        if not any(t in MENTIONS and q == p for t, q in fields) and not (lts and p == params[0] and p not in skip):
            ftxt.append("PhantomData<%s>" % p)
    default = "default" in M and not cfg[params[-1]]
    def pdecl(p):
        b = (["Cfg"] if cfg[p] else []) + (["Named"] if namedp[p] else []) + (["Clone"] if "inline" in M else [])
        s = p + (": " + " + ".join(b) if b else "")
        if default and p == params[-1]: s += " = u8"
        return s
    ldecl = ["'a"] if len(lts) == 1 else (["'a", "'b: 'a"] if lts else [])
    gdecl = ldecl + [pdecl(p) for p in params] + (["const N: usize"] if constp else [])
    wh = ["%s: core::fmt::Debug" % p for p in params] if "where" in M else []
    attrs = []
    rev = "revattr" in M
    if skip: attrs.append("skip_type_params(" + ", ".join(sorted(skip, reverse=rev)) + ")")
    ENC = {"direct", "vec", "opt", "arr", "tup", "box", "result", "selfmix", "compactp"}      # specs/MC_Generic.tla Encoding
    usedenc = {p: any(t in ENC and q == p for t, q in fields) or bool(lts and p == params[0] and p not in skip) for p in params}
    if "custom" in M:
        # the custom predicates: every non-skipped parameter and every (skipped) parameter that is part of the encoding
        bs = ["%s: TypeInfo + 'static" % p for p in params if p not in skip or usedenc[p]]
        for t, p in fields:
            if t in NEEDS_CFG: bs.append("%s::A: TypeInfo + 'static" % p)
            if t in NAMED: bs.append("%s::%s: TypeInfo + 'static" % (p, name))
            if t == "compactassoc": bs.append("%s::A: ::scale_info::scale::HasCompact" % p)
            if t == "compactp": bs.append("%s: ::scale_info::scale::HasCompact" % p)
        bl = list(dict.fromkeys(bs))
        attrs.append("bounds(" + ", ".join(reversed(bl) if rev else bl) + ")")
    if rev: attrs.reverse()
    if "cratepath" in M: attrs.insert(len(attrs) // 2, "crate = ::sinfo")
    head = "#[derive(TypeInfo)]\n" + "".join("#[scale_info(%s)]\n" % a for a in attrs)
    gtxt = "<" + ", ".join(gdecl) + ">"
    w = (" where " + ", ".join(wh)) if wh else ""
    if "enum" in M:
        body = "pub enum %s%s%s { %s }" % (name, gtxt, w, ", ".join("%sV%d(%s)" % (vattr.get(k, ""), k, x) for k, x in enumerate(ftxt)))
    elif "tuple" in M:
        body = "pub struct %s%s(%s)%s;" % (name, gtxt, ", ".join(ftxt), w)
    else:
        def named(k, x):
            parts = x.rsplit("] ", 1) if x.startswith("#[") else None
            return ("%s] f%d: %s" % (parts[0], k, parts[1])) if parts else "f%d: %s" % (k, x)
        body = "pub struct %s%s%s { %s }" % (name, gtxt, w, ", ".join(named(k, x) for k, x in enumerate(ftxt)))
    # instantiation satisfying the premise: skipped parameters get types WITHOUT TypeInfo
    inst = {}
    for p in params:
        if p in skip and not usedenc[p]:
            need_cd = "inline" in M or "where" in M
            inst[p] = ("RC" if need_cd else "R") if (cfg[p] or namedp[p]) else ("NC" if need_cd else "NoInfo")
        else:
            # a parameter whose associated type is never used in compact form is instantiated with an implementor whose
            # associated type is not HasCompact: a bound invented for it would be unsatisfied
            compact_use = any(t in ("compactassoc", "compactp") and q == p for t, q in fields)
            inst[p] = "i8" if (cfg[p] and not compact_use) else "u8"
    args = ["'static"] * len(lts) + [inst[p] for p in params] + (["3"] if constp else [])
    pre2 = ""
    if any(namedp.values()):      # a trait whose associated type carries the deriving type's name
        pre2 = "pub trait Named { type %s; }\nimpl Named for u8 { type %s = u32; }\nimpl Named for i8 { type %s = u32; }\nimpl Named for R { type %s = u8; }\nimpl Named for RC { type %s = u8; }\n" % ((name,) * 5)
    prog = PRE + pre2 + head + body + "\nfn main() { ok::<%s<%s>>(); }\n" % (name, ", ".join(args))
    if "cratepath" in M:      # the library is linked under ANOTHER name: nothing the derive emits may say `scale_info`
        prog = "// extern-rename: scale_info=sinfo\n" + prog.replace("scale_info::", "sinfo::")
    return prog, head + body

# constructions of the positive grammar that need two cooperating types or a specific attribute shape
EXTRA = {
 "bounds_replace_generated_overflow": '''
#[derive(TypeInfo)]
#[scale_info(bounds(T: TypeInfo + 'static))]   // replaces the generated bounds; merged with them the requirement overflows
struct A<T> { a: Vec<B<T>>, b: Vec<B<()>>, marker: PhantomData<T> }
#[derive(TypeInfo)]
struct B<T>(A<T>);
fn main() { ok::<A<bool>>(); ok::<B<u8>>(); }''',
 "bounds_empty_all_skipped": '''
#[derive(TypeInfo)]
#[scale_info(bounds(), skip_type_params(T))]
struct A<T> { marker: PhantomData<T>, n: u8 }
fn main() { ok::<A<NoInfo>>(); }''',
 "bounds_for_assoc_only": '''
#[derive(TypeInfo)]
#[scale_info(bounds(T::A: TypeInfo + 'static), skip_type_params(T))]
struct A<T: Cfg> { a: T::A, v: Vec<(A<T>, T::A)> }
fn main() { ok::<A<R>>(); }''',
 "self_referential_complex": '''
#[derive(TypeInfo)]
enum E<T, U: Cfg> { Leaf(T), Node(Box<E<T, U>>, Vec<E<T, U>>), Cfg(U::A), Pair(Option<Box<Self>>, (T, T)) }
impl Cfg for bool { type A = u64; }
fn main() { ok::<E<u8, bool>>(); }''',
 "non_static_lifetime_use": '''
#[derive(TypeInfo)]
struct Me<'a, 'b: 'a, T> { me: &'a Me<'a, 'b, T>, t: &'b T, s: &'a str }
fn main() { ok::<Me<'static, 'static, u32>>(); }''',
 "const_generic_default": '''
#[derive(TypeInfo)]
struct C<T, const N: usize = 4> { a: [T; N], #[codec(skip)] s: NoInfoG<[T; N]> }
fn main() { ok::<C<u8>>(); ok::<C<u16, 0>>(); }''',
 "skipped_variant_types": '''
#[derive(TypeInfo)]
enum V<T> { A(T), #[codec(skip)] B(NoInfoG<T>), C { #[codec(skip)] x: NoInfo, y: Vec<T> } }
fn main() { ok::<V<u8>>(); }''',
 "unsized_parameter_inline_bound": '''
#[derive(TypeInfo)]
struct Bx<T: ?Sized> { inner: Box<T>, n: u8 }      // a relaxed bound written inline
#[derive(TypeInfo)]
enum Rf<'a, T: ?Sized + Cfg> { A(&'a T), B(Box<T>, T::A) }
fn okq<T: TypeInfo + 'static + ?Sized>() { let _ = T::type_info(); }
impl Cfg for str { type A = u8; }
fn main() { okq::<Bx<str>>(); okq::<Bx<[u8]>>(); okq::<Bx<u8>>(); okq::<Rf<'static, str>>(); }''',
 "unsized_parameter_where_clause": '''
#[derive(TypeInfo)]
struct Bw<T> where T: ?Sized { inner: Box<T> }
fn main() { let _ = Bw::<str>::type_info(); let _ = Bw::<u16>::type_info(); }''',
 "bounds_without_type_parameters": '''
pub trait Lane { type Repr; }
pub struct Width<const N: usize>;
impl Lane for Width<4> { type Repr = u32; }
#[derive(TypeInfo)]
#[scale_info(bounds(<Width<N> as Lane>::Repr: TypeInfo + 'static))]      // only const parameters: the attribute still replaces the generated bounds
struct Cx<const N: usize> where Width<N>: Lane { r: <Width<N> as Lane>::Repr, n: [u8; N] }
#[derive(TypeInfo)]
#[scale_info(bounds())]
struct Lx<'a> { r: &'a u8, s: &'a str }
fn main() { ok::<Cx<4>>(); ok::<Lx<'static>>(); }''',
 "where_clause_on_assoc": '''
#[derive(TypeInfo)]
struct W<T: Cfg> where T::A: Clone { a: T::A, b: Option<T> }
fn main() { ok::<W<u8>>(); }''',
}
def extra_programs():
    return [(k, PRE + v.strip() + "\n") for k, v in sorted(EXTRA.items())]
