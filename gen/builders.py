"""Render builder call sequences (specs/TypeBuilders.tla) as Rust expressions and programs."""
import json

PRELUDE = """#![allow(unused)]
use scale_info::{build::*, form::{MetaForm, PortableForm}, meta_type, Field, Path, Type, TypeParameter};
use vh::bld;
"""

def s_arg(f, s):          # a string argument in the form's String type
    return json.dumps(s, ensure_ascii=False) if f == "M" else json.dumps(s, ensure_ascii=False) + ".to_string()"

def docs_arg(m, f, d):
    if m == "docs_portable": return "vec![%s]" % ", ".join(json.dumps(x, ensure_ascii=False) + ".to_string()" for x in d)
    return "&[%s]" % ", ".join(json.dumps(x, ensure_ascii=False) for x in d)

def ty_arg(f, t):
    return ("::<%s>()" % t.replace("PhantomData", "core::marker::PhantomData")) if f == "M" else "(%du32)" % t

def chain(b, f, calls):
    return "".join(call(b, f, c) for c in calls)

def fs_start(f, k):
    return "Fields::<%s>::%s()" % ("MetaForm" if f == "M" else "PortableForm", k)

# closures may ignore the builder they are handed and return a FRESH one (its typestate is then inferred from what
# the caller demands): FRESH[0] renders them that way
FRESH = [False]

def call(b, f, c):
    m = c["m"]
    if b == "FB":
        if m == "name": return ".name(%s)" % s_arg(f, c["n"])
        if m == "ty": return ".ty" + ty_arg(f, c["t"])
        if m == "compact": return ".compact::<%s>()" % c["t"]
        if m == "type_name": return ".type_name(%s)" % s_arg(f, c["tn"])
    if b == "FS" and m == "field":
        # (the FORM is written out - `name` exists for both forms, so it cannot be inferred from a chain that starts with it;
        # the two typestate parameters are left to inference)
        if FRESH[0]: return ".%s(|_| FieldBuilder::<%s, _, _>::new()%s)" % ("field" if f == "M" else "field_portable", "MetaForm" if f == "M" else "PortableForm", chain("FB", f, c["seq"]))
        return ".%s(|f| f%s)" % ("field" if f == "M" else "field_portable", chain("FB", f, c["seq"]))
    if b == "VB":
        if m == "index": return ".index(%d)" % c["i"]
        if m == "discriminant": return ".discriminant(%d)" % c["d"]
        if m == "fields": return ".fields(%s%s)" % (fs_start(f, c["k"]), chain("FS", f, c["seq"]))
    if b == "VS":
        if m == "variant" and FRESH[0]: return ".variant(%s, |_| VariantBuilder::new(%s)%s)" % (s_arg(f, c["name"]), s_arg(f, c["name"]), chain("VB", f, c["seq"]))
        if m == "variant": return ".variant(%s, |v| v%s)" % (s_arg(f, c["name"]), chain("VB", f, c["seq"]))
        if m == "variant_unit": return ".variant_unit(%s, %d)" % (s_arg(f, c["name"]), c["i"])
    if b == "TB":
        if m == "path":
            return ".path(Path::from_segments_unchecked(vec![%s]))" % ", ".join(s_arg(f, x) for x in c["p"])
        if m == "type_params":
            ps = []
            for p in c["ps"]:
                if f == "M":
                    t = "Some(meta_type::<%s>())" % p["ty"][0].replace("PhantomData", "core::marker::PhantomData") if p["ty"] else "None"
                    ps.append("TypeParameter::new(%s, %s)" % (json.dumps(p["name"]), t))
                else:
                    t = "Some(%du32.into())" % p["ty"][0] if p["ty"] else "None"
                    ps.append("TypeParameter::new_portable(%s.to_string(), %s)" % (json.dumps(p["name"]), t))
            return ".type_params(vec![%s])" % ", ".join(ps)
        if m == "type_params_macro": return ".type_params(scale_info::type_params![%s])" % ", ".join(c["tys"])
        if m == "named_type_params_macro": return ".type_params(scale_info::named_type_params![%s])" % ", ".join("(%s, %s)" % (a, b) for a, b in c["ps"])
        if m == "composite": return ".composite(%s%s)" % (fs_start(f, c["k"]), chain("FS", f, c["seq"]))
        if m == "variant": return ".variant(Variants::<%s>::new()%s)" % ("MetaForm" if f == "M" else "PortableForm", chain("VS", f, c["seq"]))
    if m in ("docs", "docs_always", "docs_portable"): return ".%s(%s)" % (m, docs_arg(m, f, c["d"]))
    if m == "finalize": return ".finalize()"
    raise ValueError((b, m))

def start(b, f, arg):
    F = "MetaForm" if f == "M" else "PortableForm"
    if b == "FB": return "FieldBuilder::<%s>::new()" % F
    if b == "FS": return fs_start(f, arg)
    if b == "VB": return "VariantBuilder::<%s>::new(%s)" % (F, s_arg(f, arg))
    if b == "VS": return "Variants::<%s>::new()" % F
    if b == "TB": return "Type::builder()" if f == "M" else "Type::builder_portable()"

def expr_fresh(case, upto=None, extra=None):
    FRESH[0] = True
    try: return expr(case, upto, extra)
    finally: FRESH[0] = False

def expr(case, upto=None, extra=None):
    calls = case["calls"] if upto is None else case["calls"][:upto]
    e = start(case["b"], case["f"], case["arg"]) + chain(case["b"], case["f"], calls)
    if extra is not None: e += call(case["b"], case["f"], extra)
    return e

PROJ = {("FB", "M"): "bld::mfield(&r)", ("FB", "P"): "bld::pfield(&r)", ("FS", "M"): "bld::mfields(&r)", ("FS", "P"): "bld::pfields(&r)",
        ("VB", "M"): "bld::mvariant(&r)", ("VB", "P"): "bld::pvariant(&r)", ("VS", "M"): "bld::mvariants(&r)", ("VS", "P"): "bld::pvariants(&r)",
        ("TB", "M"): "bld::mtype(&r)", ("TB", "P"): "bld::ptype(&r)"}

PROJ_P = {"FB": "bld::mfield_p(&r)", "FS": "bld::mfields_p(&r)", "VB": "bld::mvariant_p(&r)", "VS": "bld::mvariants_p(&r)", "TB": "bld::mtype_p(&r)"}

def positive_program(cases, base):
    L = [PRELUDE, "fn main() {"]
    for i, c in enumerate(cases):
        if c["f"] == "M":      # compile-time form: also the value after conversion to the portable form
            L.append("    { let r = %s; bld::out2(%d, %s, %s); }" % (expr(c), base + i, PROJ[(c["b"], c["f"])], PROJ_P[c["b"]]))
            continue
        L.append("    { let r = %s; bld::out(%d, %s); }" % (expr(c), base + i, PROJ[(c["b"], c["f"])]))
    L.append("}")
    return "\n".join(L) + "\n"

def single_program(e):
    return PRELUDE + "fn main() {\n    let _ = %s;\n}\n" % e
