"""tagged JV tree (specs/JsonForm.tla) -> python value"""
def from_jv(j):
    t = j["t"]
    if t == "z": return None
    if t == "b": return j["v"]
    if t == "s": return bytes(j["b"]).decode("utf-8") if "b" in j else j["v"]
    if t == "n": return (-1 if j["neg"] else 1) * (j["hi"] * 65536 + j["lo"]) if j["int"] else 1.5
    if t == "a": return [from_jv(x) for x in j["v"]]
    if t == "o": return {k: from_jv(v) for k, v in zip(j["k"], j["v"])}
    raise ValueError(t)
