"""tagged JV tree (specs/JsonForm.tla) -> python value"""
def from_jv(j):
    t = j["t"]
    if t == "z": return None
    if t == "b": return j["v"]
    if t == "s": return bytes(j["b"]).decode("utf-8") if "b" in j else j["v"]
    if t == "n": return (-1 if j["neg"] else 1) * (j["hi"] * 65536 + j["lo"]) if j["int"] else 1.5
    if t == "a": return [from_jv(x) for x in j["v"]]
    if t == "o": return {k: from_jv(v) for k, v in zip(j["k"], j["v"])}
    raise ValueError(t)


def to_jv(v):
    if v is None: return {"t": "z"}
    if isinstance(v, bool): return {"t": "b", "v": v}
    if isinstance(v, str): return {"t": "s", "b": list(v.encode("utf-8"))}
    if isinstance(v, int): return {"t": "n", "int": True, "neg": v < 0, "hi": abs(v) >> 16, "lo": abs(v) & 0xffff}
    if isinstance(v, float) and v.is_integer() and abs(v) < 2 ** 32:      # schemars writes bounds as 0.0, 1.0, 255.0
        i = int(v); return {"t": "n", "int": True, "neg": i < 0, "hi": abs(i) >> 16, "lo": abs(i) & 0xffff}
    if isinstance(v, float): return {"t": "n", "int": False, "neg": v < 0, "hi": 0, "lo": 0}
    if isinstance(v, list): return {"t": "a", "v": [to_jv(x) for x in v]}
    return {"t": "o", "k": list(v.keys()), "v": [to_jv(x) for x in v.values()]}

def schema_to_jv(v, in_enum=False):
    """schema form of specs/JsonSchema.tla: strings stay strings (ASCII-sanitised) except under `enum`"""
    if isinstance(v, str) and not in_enum:
        return {"t": "s", "v": "".join(c if (ord(c) < 128 and c not in '"\\' and c.isprintable()) else "?" for c in v)}
    if isinstance(v, list): return {"t": "a", "v": [schema_to_jv(x, in_enum) for x in v]}
    if isinstance(v, dict): return {"t": "o", "k": list(v.keys()), "v": [schema_to_jv(x, in_enum or k == "enum") for k, x in v.items()]}
    return to_jv(v)
