"""Runner support for /verif/bin/check: cargo builds, TLC runs, evidence, verdict lines.

Exit status convention (see DESIGN.md section 4):
  0  property held on everything explored (KNOWN-FINDING lines allowed)
  1  a VIOLATION line was printed (real code, rebuilt from /repo, contradicted the property)
  2  tool trouble (cargo/rustc infrastructure, TLC crash, timeout, generator self-check)
"""
import fcntl, json, os, re, subprocess, sys, time, shutil, hashlib

VERIF = os.path.dirname(os.path.dirname(os.path.abspath(__file__)))
SPECS = os.path.join(VERIF, "specs")
HARNESS = os.path.join(VERIF, "harness")
WORKROOT = os.path.join(VERIF, "work")
EVID = os.path.join(VERIF, "evidence")
REPO = "/repo"
# Development aid (never used by the registered commands): run the checks against a scratch copy/worktree of
# the repository without touching /repo.  VERIF_REPO=<dir> overrides the path dependency through cargo's
# `paths` override and switches to a separate target dir, work root and evidence dir (VERIF_ALT names them).
ALT_REPO = os.environ.get("VERIF_REPO")
ALT = os.environ.get("VERIF_ALT", "alt") if ALT_REPO else None
TARGET = os.path.join(HARNESS, "target-" + ALT) if ALT else os.path.join(HARNESS, "target")
if ALT:
    WORKROOT = os.path.join(VERIF, "work", "_" + ALT)
    EVID = os.path.join(WORKROOT, "evidence")


# Development aid: VERIF_COV=1 builds everything with -C instrument-coverage (see bin/cov_report); never set by MANIFEST commands.
COV = bool(os.environ.get("VERIF_COV"))


def rustflags(extra=""):
    return " ".join(x for x in [os.environ.get("RUSTFLAGS", ""), "-Awarnings", extra, "-C instrument-coverage" if COV else ""] if x)


def discard(exe):
    """remove a generated program's binary (kept in coverage mode: llvm-cov needs it)"""
    if not COV and os.path.exists(exe):
        os.unlink(exe)


def cargo_extra():
    return ["--config", 'paths=["%s"]' % ALT_REPO, "--target-dir", TARGET] if ALT else []
TLA_CP = "/opt/veriftools/tla/tla2tools.jar:/opt/veriftools/tla/CommunityModules-deps.jar"


class ToolError(Exception):
    pass


def seed():
    try:
        return int(os.environ.get("VERIF_SEED", "1"))
    except ValueError:
        return 1


def workdir(pid, fresh=True):
    d = os.path.join(WORKROOT, pid)
    if fresh and os.path.isdir(d):
        for n in os.listdir(d):
            if n in ("replay",):
                continue
            p = os.path.join(d, n)
            shutil.rmtree(p) if os.path.isdir(p) else os.unlink(p)
    os.makedirs(os.path.join(d, "replay"), exist_ok=True)
    return d


class Lock:
    def __init__(self, name):
        os.makedirs(WORKROOT, exist_ok=True)
        self.path = os.path.join(WORKROOT, "." + name + ".lock")

    def __enter__(self):
        self.f = open(self.path, "w")
        fcntl.flock(self.f, fcntl.LOCK_EX)
        return self

    def __exit__(self, *a):
        fcntl.flock(self.f, fcntl.LOCK_UN)
        self.f.close()


def run(cmd, cwd=None, env=None, timeout=None, stdin=None, check=False):
    e = dict(os.environ)
    if env:
        e.update(env)
    p = subprocess.run(cmd, cwd=cwd, env=e, timeout=timeout, input=stdin,
                       stdout=subprocess.PIPE, stderr=subprocess.PIPE, text=True)
    if check and p.returncode != 0:
        raise ToolError("command failed (%d): %s\n%s\n%s" % (p.returncode, " ".join(map(str, cmd)), p.stdout[-3000:], p.stderr[-3000:]))
    return p


def cargo_build(bins, features=(), package="vh", profile_release=False):
    """Build harness binaries from /repo's current working tree. Returns dir holding the binaries."""
    cmd = ["cargo", "build", "--offline", "-q", "-p", package]
    for b in bins:
        cmd += ["--bin", b]
    if features:
        cmd += ["--features", ",".join(features)]
    cmd += cargo_extra()
    with Lock("cargo"):
        p = run(cmd, cwd=HARNESS, env={"CARGO_NET_OFFLINE": "true", "RUSTFLAGS": rustflags()})
    if p.returncode != 0:
        raise ToolError("cargo build failed:\n" + p.stderr[-6000:])
    return os.path.join(TARGET, "debug")


class TLCResult:
    def __init__(self, out, rc):
        self.out = out
        self.rc = rc
        m = re.findall(r"(\d+) states generated, (\d+) distinct states found", out)
        self.generated = int(m[-1][0]) if m else 0
        self.distinct = int(m[-1][1]) if m else 0
        self.violated = re.findall(r"Error: Invariant (\S+) is violated", out) + \
            re.findall(r"Error: Action property (\S+) is violated", out) + \
            (["temporal"] if "Temporal properties were violated" in out else [])
        self.errors = [l for l in out.splitlines() if l.startswith("Error:")]
        self.ok = (rc == 0 and not self.errors)

    def lines(self, tag):
        """Lines PrintT'ed as <<"TAG", "json">> -> list of parsed json."""
        res = []
        pre = '<<"%s", "' % tag
        for l in self.out.splitlines():
            if l.startswith(pre) and l.endswith('">>'):
                s = l[len(pre):-3]
                res.append(json.loads(json.loads('"' + s + '"')))
        return res


def tlc(module, cfg, wd, workers=4, env=None, args=(), timeout=3600, heap="6g", deque=False, stack=True):
    """Run TLC on /verif/specs/<module>.tla with /verif/specs/<cfg>. Raises ToolError on crash/timeout."""
    md = os.path.join(wd, "tlc_" + os.path.splitext(os.path.basename(cfg))[0])
    shutil.rmtree(md, ignore_errors=True)
    jopts = []
    if deque:
        jopts.append("-Dtlc2.tool.queue.IStateQueue=StateDeque")
    cmd = ["java", "-XX:+UseParallelGC", "-Xmx" + heap] + (["-Xss1g"] if stack else []) + jopts + [
        "-cp", TLA_CP, "tlc2.TLC", "-workers", str(workers), "-metadir", md, "-cleanup", "-noGenerateSpecTE",
        "-config", os.path.join(SPECS, cfg)] + list(args) + [os.path.join(SPECS, module + ".tla")]
    try:
        p = run(cmd, cwd=wd, env=env, timeout=timeout)
    except subprocess.TimeoutExpired:
        raise ToolError("TLC timed out on %s/%s" % (module, cfg))
    finally:
        shutil.rmtree(md, ignore_errors=True)
    out = p.stdout + p.stderr
    with open(os.path.join(wd, os.path.basename(cfg) + ".out"), "w") as f:
        f.write(out)
    r = TLCResult(out, p.returncode)
    if "Exception" in out and "TLCRuntime" not in out and not r.violated and not r.generated:
        raise ToolError("TLC crashed on %s/%s:\n%s" % (module, cfg, out[-3000:]))
    return r


def tlc_design(module, cfg, wd, **kw):
    """Design-level check: must pass; a violated invariant here is a *specification* error -> ToolError."""
    r = tlc(module, cfg, wd, **kw)
    if not r.ok or r.violated:
        raise ToolError("design check %s/%s failed (specification error, not a code finding):\n%s" % (module, cfg, "\n".join(r.errors[:5]) + r.out[-2500:]))
    return r


def tlc_trace(module, cfg, wd, trace_path, timeout=3600, heap="4g", extra_env=None):
    """Trace validation. Returns (accepted, info) where info has the first unmatched event index if rejected."""
    env = {"TRACE": trace_path}
    if extra_env:
        env.update(extra_env)
    r = tlc(module, cfg, wd, workers=1, env=env, timeout=timeout, heap=heap, deque=True, stack=True)
    m = re.search(r'"REJECTED at event",\s*(\d+)', r.out)
    if m:
        return False, {"at": int(m.group(1)), "out": r.out, "res": r}
    if not r.ok:
        # evaluation error inside the trace spec: treat as tool error unless a post-condition rejected
        raise ToolError("trace validation %s crashed:\n%s" % (module, "\n".join(r.errors[:5]) + r.out[-3000:]))
    return True, {"res": r}


def known_findings():
    p = os.path.join(VERIF, "known_findings.json")
    if not os.path.exists(p):
        return {"known": [], "fixed": []}
    return json.load(open(p))


class Check:
    """Collects coverage and verdicts for one property run and writes evidence + verdict lines."""

    def __init__(self, pid, tier, level):
        self.pid, self.tier, self.level = pid, tier, level
        self.t0 = time.time()
        self.cov = {"samples": []}
        self.assumptions = []
        self.violations = []   # (key, description, replay_path)
        self.known_hits = []
        self.wd = workdir(pid)
        self.kf = [k for k in known_findings().get("known", []) if k.get("property") == pid]

    def add(self, key, n=1):
        self.cov[key] = self.cov.get(key, 0) + n

    def sample(self, s, cap=4):
        if len(self.cov["samples"]) < cap:
            self.cov["samples"].append(s)

    def replay_file(self, name, content):
        p = os.path.join(self.wd, "replay", name)
        with open(p, "w") as f:
            if isinstance(content, str):
                f.write(content)
            else:
                json.dump(content, f, indent=1)
        return p

    def violation(self, key, desc, replay_path):
        """key identifies the failing input class; a listed known finding with that key is reported, not raised."""
        for k in self.kf:
            if k.get("key") == key:
                if k not in self.known_hits:
                    self.known_hits.append(k)
                return
        self.violations.append((key, desc, replay_path))

    def finish(self):
        wall = time.time() - self.t0
        evid = EVID if not self.pid.startswith("X") else os.path.join(os.path.dirname(EVID), "evidence_ext")   # extension checks: not a listed property
        os.makedirs(evid, exist_ok=True)
        ev = {"property_id": self.pid, "tier": self.tier, "seed": seed(), "level": self.level,
              "coverage": self.cov, "assumptions": self.assumptions, "wall_s": round(wall, 2),
              "violations": len(self.violations)}
        if self.known_hits:
            ev["coverage"]["known_findings_reproduced"] = [k["key"] for k in self.known_hits]
        with open(os.path.join(evid, self.pid + ".json"), "w") as f:
            json.dump(ev, f, indent=1)
        for k in self.known_hits:
            print("KNOWN-FINDING: property=%s %s" % (self.pid, k.get("what", k["key"])))
        for key, desc, rp in self.violations[:20]:
            print("VIOLATION property=%s replay=%s" % (self.pid, rp))
            print("  [%s] %s" % (key, desc))
        sys.stdout.flush()
        return 1 if self.violations else 0


def ndjson_write(path, items):
    with open(path, "w") as f:
        for it in items:
            f.write(json.dumps(it, separators=(",", ":")) + "\n")


def ndjson_read(path):
    return [json.loads(l) for l in open(path) if l.strip()]
