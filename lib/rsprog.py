"""Compile and run generated Rust programs against the harness's already-built dependency set by direct
rustc invocations (0.5-1 s per program, run 16-wide). The rlibs are located from cargo's own
`--message-format=json` output of a build from /repo's current working tree, so programs always link
the scale-info that was just rebuilt, with the feature set asked for."""
import json, os, subprocess, concurrent.futures as cf
import vlib

WANT = {"rand": "rand", "vh": "vh", "scale_info": "scale_info", "parity_scale_codec": "scale", "serde_json": "serde_json", "bitvec": "bitvec", "serde": "serde"}


class Deps:
    def __init__(self, features=(), pkg="vh", hooks=False):
        """pkg="min": only scale-info itself is made available (harness/min); hooks: the dependency set is built with
        --cfg scale_info_verif (the library's trace hooks on) in a target directory of its own (extension check X04)"""
        self.features = tuple(features)
        want = WANT if pkg == "vh" else {"scale_info": "scale_info"}
        cmd = ["cargo", "build", "--offline", "-p", pkg, "--lib", "--message-format=json"]
        if features:
            cmd += ["--features", ",".join(features)]
        target = vlib.TARGET + ("-hooks" if hooks else "")
        cmd += (["--config", 'paths=["%s"]' % vlib.ALT_REPO] if vlib.ALT else []) + (["--target-dir", target] if (vlib.ALT or hooks) else [])
        with vlib.Lock("cargo"):
            p = vlib.run(cmd, cwd=vlib.HARNESS, env={"CARGO_NET_OFFLINE": "true", "RUSTFLAGS": vlib.rustflags("--cfg scale_info_verif" if hooks else "")})
        if p.returncode != 0:
            raise vlib.ToolError("cargo build (program deps) failed:\n" + p.stderr[-5000:])
        self.externs = {}
        for l in p.stdout.splitlines():
            if not l.startswith("{"):
                continue
            m = json.loads(l)
            if m.get("reason") != "compiler-artifact":
                continue
            name = m["target"]["name"].replace("-", "_")
            if name in want and "lib" in m["target"]["kind"][0] or name in want and m["target"]["kind"] == ["lib"]:
                rl = [f for f in m["filenames"] if f.endswith(".rlib")]
                if rl:
                    self.externs[want[name]] = rl[0]
        missing = [v for v in want.values() if v not in self.externs]
        if missing:
            raise vlib.ToolError("could not locate rlibs for %s" % missing)
        self.depdir = os.path.join(target, "debug", "deps")

    def rustc_cmd(self, src, out, extra=(), rename=None):
        cmd = ["rustc", "--edition", "2021", "--crate-type", "bin", "-C", "debuginfo=0", "-C", "opt-level=0", "-A", "warnings",
               "--error-format=json", "-L", "dependency=" + self.depdir]
        for k, v in self.externs.items():
            cmd += ["--extern", "%s=%s" % ((rename or {}).get(k, k), v)]
        if vlib.COV: cmd += ["-C", "instrument-coverage"]
        return cmd + list(extra) + [src, "-o", out]

    def compile(self, src, out, extra=(), rename=None):
        """returns (ok, [diagnostic dicts]). rename: extern crate names under which dependencies are made available
        ({"scale_info": "sinfo"}: the library is NOT reachable as ::scale_info); a program may ask for it itself with a
        first line `// extern-rename: scale_info=sinfo`"""
        if rename is None:
            with open(src) as f: first = f.readline()
            if first.startswith("// extern-rename: "):
                rename = dict(x.split("=") for x in first[len("// extern-rename: "):].split())
        env = dict(os.environ, CARGO_MANIFEST_DIR=os.path.join(vlib.HARNESS, "vh"), CARGO_PKG_NAME="vh", CARGO_CRATE_NAME="prog")
        p = subprocess.run(self.rustc_cmd(src, out, extra, rename), env=env, stdout=subprocess.PIPE, stderr=subprocess.PIPE, text=True)
        diags = []
        for l in p.stderr.splitlines():
            if l.startswith("{"):
                try:
                    d = json.loads(l)
                    if d.get("level") in ("error", "error: internal compiler error") and not (d.get("message") or "").startswith("aborting due to"):
                        diags.append({"code": (d.get("code") or {}).get("code"), "message": d.get("message"), "rendered": (d.get("rendered") or "")[:1500]})
                except ValueError:
                    pass
            elif l.strip() and p.returncode != 0:
                diags.append({"code": None, "message": l[:500], "rendered": l[:500]})
        return p.returncode == 0, diags

    def compile_many(self, jobs, workers=16, extra=()):
        """jobs: list of (src, out). returns list of (ok, diags) in order. extra: further rustc flags (-C opt-level=3 ...;
        a later -C opt-level overrides the default one)"""
        with cf.ThreadPoolExecutor(max_workers=workers) as ex:
            return list(ex.map(lambda j: self.compile(j[0], j[1], extra=extra), jobs))


def run_prog(exe, args=(), timeout=300, stdin=None):
    try:
        p = subprocess.run([exe] + list(args), stdout=subprocess.PIPE, stderr=subprocess.PIPE, text=True, timeout=timeout, input=stdin)
    except subprocess.TimeoutExpired:
        raise vlib.ToolError("generated program %s did not finish within %ds (generator problem, not a verdict)" % (exe, timeout))
    return p
