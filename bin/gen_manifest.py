#!/usr/bin/env python3
"""Regenerates MANIFEST.json from the table below (single source of truth for the interface)."""
import json, os
ROOT = os.path.dirname(os.path.dirname(os.path.abspath(__file__)))
props = [json.loads(l) for l in open(os.path.join(ROOT, "properties.jsonl"))]
REG_NOTE = "Small-scope hypothesis (3 identities exhaustively, <=12 in random universes); the harness's runtime-configurable Node<I> types stand in for arbitrary user TypeInfo impls; TLC, the harness projection and serde_json are trusted."
REG_TECH = "TLA+ Registry spec (explicit recursion): TLC bounded-exhaustive design check, every terminal behaviour replayed on the real Registry, TLC trace validation of random universes under the property's own acceptor"
WIRE_NOTE = "Bounded enumeration per production plus random registries, not an inductive proof over the grammar; inputs < 64 KiB; TLC, harness projection (public constructors only) and serde_json trusted."
TX_NOTE = "Corpus is bounded (depth <= 2, thorough 3); the value oracle (harness/vh/src/val.rs) is hand-written from documentation; generated programs are compiled by direct rustc against the harness dependency set rebuilt from /repo."
CLAIMED = {
 "C04": dict(cat="model_checking", ref="5/C04", note=TX_NOTE, tech="TLA+ ScaleValue decoder (driven only by the registry) + TypeExpr.BuiltinInfo: TLC enumerates type expressions, generated programs record real registries/values/bytes, TLC decodes every value from the description alone",
      text="TLC enumerates built-in type expressions; generated programs register each, log the real portable registry, boundary-biased random values with hand-written value trees and their real SCALE bytes; the TLA+ decoder, which sees only the registry, must consume each encoding exactly and recover the tree; every type_info() is also compared with the documented shape (covers char, 19/20-tuples, bit orders)."),
 "C16": dict(cat="model_checking", ref="5/C16", note=TX_NOTE, tech="TLA+ acceptor over observed ==/cmp/hash matrices vs identities declared by the types, on TLC-enumerated type-expression corpora in generated programs",
      text="For ~70 expressions per generated program (wrappers of wrappers, all PhantomData instantiations, containers) the full ==, cmp, partial_cmp and hash matrices are logged next to TypeId::of::<T::Identity>() computed by the program itself; TLC checks == is exactly identity equality, cmp is a total order consistent with it, equal => equal hash, and equal identity => equal type_info()."),
 "C08": dict(cat="model_checking", ref="5/C08", note="serde_json::Value -> tagged tree transcoding is lexical and trusted; numbers within u32; presence lattice + random registries, not a proof over all strings.", tech="TLA+ JsonForm spec (documented shape + inverse): TLC checks losslessness over the presence lattice, cases replayed on real serde, random real documents validated by TLC",
      text="JsonOf states the documented shape independently of serde attributes; TLC checks RegOfJson(JsonOf(r)) = r and documented-keys-only over every definition kind x every presence combination; each case goes through real to_value/from_value/to_string/from_str; random registries' real JSON is compared by TLC up to member order."),
 "C19": dict(cat="model_checking", ref="5/C19", note="Draft-07 subset semantics written in TLA+; format is an annotation; unknown keyword = tool error; python jsonschema as second opinion in the thorough tier.", tech="TLA+ JsonSchema semantics evaluated by TLC: the real schemars-generated schema against real serialised documents of the presence lattice and random registries",
      text="The schema is produced by the real derive (feature schema) at check time and loaded into TLC; Validates(S, S, doc) is evaluated on the real to_value output of every registry of the presence lattice (every kind x optional parts present/absent) and of random registries."),
 "C06": dict(cat="model_checking", ref="5/C06", note=WIRE_NOTE, tech="TLA+ Wire spec = independent V14 encoder and decoder: TLC checks the format lemmas, emitted (registry, bytes) cases replayed on real encode/decode, random real encodings validated by TLC",
      text="EncReg/DecReg are written from the published layout; TLC checks DecReg(EncReg(r)) = r on 715 registries enumerated production by production and each is replayed on the real code both ways; random registries (all kinds, boundary ids, hostile strings) encoded/decoded by the real code are validated byte for byte by TLC."),
 "C07": dict(cat="model_checking", ref="5/C07", note=WIRE_NOTE, tech="TLA+ round-trip history acceptor over recorded Encode/Decode events (determinism, injectivity, exact consumption) + replay of TLC-enumerated registries",
      text="The format is shown lossless/injective by model-checking DecReg o EncReg = id; the code is judged by a history acceptor stated in the property's own terms (encode is a function and injective over everything seen, decode(encode(r)++junk) = (r, |encode(r)|)) on enumerated registries, near-miss pairs and random registries."),
 "C14": dict(cat="fault_enumeration", ref="5/C14", note="Memory bound asserted (counting allocator, 256KiB+256*len), not modelled; unbounded recursion impossible by type structure; JSON faults are structural mutations of valid documents.", tech="TLA+ fault machine over encodings (truncate/flip/set/insert/delete/length corruption) model-checked for format canonicity; every faulted input decoded by the real code under catch_unwind + counting allocator; fuzzing; JSON fault machine",
      text="Exhaustive single faults (thorough: strided double faults) of base encodings covering all kinds are generated by TLC, classified by the independent decoder, and decoded by the real code; violations are raised only in the property's own terms (panic/abort, memory bound, non-canonical re-encode, resolve out of range)."),
 "C10": dict(cat="model_checking", ref="5/C10", tech="TLA+ Retain spec (step-for-step model of retain_type): TLC exhaustive over all small graphs x all filters, every behaviour replayed on the real retain, TLC re-runs the spec on recorded real calls",
      text="The algorithm of retain is modelled action by action on concrete registry entries; the statement of C10 (DoneOK), PlaceholderNeverRead and termination are model-checked over every graph on 3 nodes (thorough: 4) x every filter; all 17.5k behaviours are replayed on the real code comparing returned map and full result; random well-formed registries (all kinds, <=12 entries) and retain-of-retain outputs are validated by TLC running the specification on the recorded input.",
      note="Premise: well-formed input, pure filter. Small-scope hypothesis. TLC, harness projection and serde_json trusted."),
 "C18": dict(cat="model_checking", ref="5/C18", tech="TLA+ Paths spec (identifier DFA + path operators): TLC exhaustive over class strings / segment lists / replacement tables, replayed on the real Path API; TLC validation of random unicode traces",
      text="The identifier language is specified as a DFA and declaratively; TLC checks they agree on every string up to length 6 (thorough 7) over 8 character classes and emits each as a conformance case run (with three concretisations) through Path::from_segments; all segment lists x replacement tables are run through from_segments/new/new_with_replace/ident/namespace/Display; random unicode strings are recorded and validated.",
      note="Assumes validity depends on a character only through its class; harness classify() trusted."),
 "C01": dict(cat="model_checking", tech=REG_TECH, ref="5/C01", note=REG_NOTE,
      text="Registry/Builder/retain producers modelled in TLA+; TLC checks dense+closed at every quiescent state of every universe/history in the bound; all 59k terminal behaviours are replayed on the real Registry and the real result is checked dense, closed and resolvable by label; random real executions (register_type/register_types/map_into_portable, From<Registry>, resolve probes) are validated by TLC with WellFormed evaluated on every observed registry."),
 "C02": dict(cat="model_checking", tech=REG_TECH, ref="5/C02", note=REG_NOTE,
      text="The specification computes the portable image of each identity's type_info() independently of the implementation; the real registry state after every public call must equal it field for field (refinement acceptor), on every exhaustively enumerated small universe and on random universes with all eight definition kinds, cycles and aliases; termination is checked as liveness in the model and by the harness surviving cyclic universes."),
 "C05": dict(cat="model_checking", tech=REG_TECH, ref="5/C05", note=REG_NOTE,
      text="Hit-is-no-op, one entry per reachable identity and at-most-once evaluation are invariants/action properties of the model; on real executions the Eval callbacks logged from inside type_info() must be consumed exactly by the model's miss steps, returned ids must partition spellings exactly by identity (wrappers of wrappers included), and a call that adds nothing must change nothing."),
 "C11": dict(cat="model_checking", tech=REG_TECH, ref="5/C11", note=REG_NOTE,
      text="Append-only table and immutable entries are action properties of the model; on real executions every observed state must be a prefix-extension of the previous one, a replayed history must encode byte-identically, and a permuted root order must give a registry isomorphic up to id renaming (bijection computed by TLC from the roots)."),
 "C12": dict(cat="model_checking", tech="TLA+ Interner spec: TLC complete state graph, one real-code test per transition + TLC trace validation of random walks",
      text="Complete state graph of the Interner/Builder specification (all duplicate-free sequences over a small alphabet x all operations) model-checked for the table invariants; every transition executed against four real instantiations; random real-code walks accepted by the specification. Transition coverage of a finite abstract state space is the right level for an object whose whole state is observable.",
      note="Assumes the implementation has no hidden state beyond elements()/finish(); alphabet of 4 (quick) / 5 (thorough) values; TLC, the Rust harness and serde_json are trusted.", ref="5/C12"),
}
PENDING = "check not built yet in this round; see DESIGN.md section 5 for the planned specification module"
checks, na = [], []
for p in props:
    i = p["id"]
    if i in CLAIMED:
        c = CLAIMED[i]
        checks.append({"property_id": i, "quick_cmd": "bin/check %s quick" % i, "thorough_cmd": "bin/check %s thorough" % i,
            "evidence_file": "evidence/%s.json" % i, "replay_cmd_template": "bin/check %s quick --replay {path}" % i,
            "engine": "tlc+harness", "level_claimed": {"category": c["cat"], "text": c["text"], "design_ref": "DESIGN.md section " + c["ref"]},
            "level_note": c["note"], "technique": c["tech"]})
    else:
        na.append({"property_id": i, "reason": PENDING})
m = {"version": 1,
     "setup_cmd": "bin/setup",
     "hooks": {"guard": "scale_info_verif", "enable": "no source hooks are needed: the public API exposes the whole abstract state (DESIGN.md 3.1); the cfg name is reserved and unused",
               "baseline_off_cmd": "cd /repo && cargo test --workspace --no-fail-fast --offline", "source_commits": [], "add_only": True},
     "engines": [{"name": "tlc+harness", "path": "bin/check", "serves_properties": sorted(CLAIMED), "kind_free_text": "explicit TLA+ specifications (specs/*.tla) checked by TLC; bound to the code by replaying TLC-generated cases into a Rust harness built from /repo and by validating traces recorded from the real code against the specification"}],
     "checks": checks, "not_applicable": na,
     "notes": "All checks: bin/check <ID> quick|thorough [--replay FILE]; exit 0 held, 1 VIOLATION, 2 tool error."}
json.dump(m, open(os.path.join(ROOT, "MANIFEST.json"), "w"), indent=1)
print("claimed", sorted(CLAIMED), "pending", [x["property_id"] for x in na])
